package rules

import (
	"fmt"
	"go/token"
	"go/types"
	"os"
	"strings"

	"golang.org/x/tools/go/ssa"

	"charonverif/internal/an"
	"charonverif/internal/rt"
)

func init() {
	Register(&Prop{
		ID: "C16",
		Decides: "core.deadliner, decided on the explored paths of one iteration of the run goroutine's event loop (helpers, closures and deferred calls followed): " +
			"(N1) the duty set and the timer are owned by the single run goroutine, the expiry channel is written only there, only in the timer case, with the duty selected by getCurrDuty; " +
			"(N2) a registration is answered exactly once; Exempt/Expired registrations never enter the set, the Scheduled reply precedes the insertion, the already-expired test uses a clock value read after the registration arrived, " +
			"the set is keyed by the received duty (re-adding is idempotent) and the timer state is recomputed when the new deadline is earlier than the armed one; " +
			"(N3) an expired duty is removed from the set only on paths on which its report was delivered; (N5) after a removal the timer state is recomputed before the next event; " +
			"(N4) getCurrDuty selects the minimum deadline, ignores never-expiring duties and returns the duty whose deadline it returns; " +
			"(N6) a registration stores the received duty under a key computed from that duty, or positionally (append/insert/push/element store) only behind a test of that duty's identity, so registering a pending duty again has no further effect; " +
			"(N2, cont.) DeadlineExpired is answered only on paths on which the duty's own deadline was decided to lie before the clock value read after the registration arrived; " +
			"(N7) every status Add returns is the value received on the reply channel it handed to the run goroutine, or follows a receive from the channel run closes when it ends (no answer from state kept outside the actor); " +
			"(N8) every timer of the run goroutine is armed with (selected deadline - now) or longer, or every reporting path of the timer case first decides that the selected deadline is not after the clock.",
		NotDecided: "'at or after its deadline' and ordering by deadline as statements about clock values; behaviour of the clockwork timer.",
		Run:        c16,
		Mutants: []Mutant{
			{ID: "C16-N1-second-writer", File: "core/deadline.go", Expect: "N1",
				Old: "\t\t\tinput.success <- DeadlineScheduled\n",
				New: "\t\t\tinput.success <- DeadlineScheduled\n\n\t\t\tif len(duties) > 1024 {\n\t\t\t\td.deadlineChan <- input.duty\n\t\t\t}\n"},
			{ID: "C16-N1-wrong-duty", File: "core/deadline.go", Expect: "N1",
				Old: "\t\t\tcase d.deadlineChan <- currDuty:",
				New: "\t\t\tcase d.deadlineChan <- Duty{Slot: currDuty.Slot}:"},
			{ID: "C16-N2-insert-before-expiry-test", File: "core/deadline.go", Expect: "N2",
				Old: "\t\t\t// Ignore (and signal) duties that have already expired.\n",
				New: "\t\t\tduties[input.duty] = true\n\t\t\t// Ignore (and signal) duties that have already expired.\n"},
			{ID: "C16-N2-exempt-scheduled", File: "core/deadline.go", Expect: "N2",
				Old: "\t\t\t\tinput.success <- DeadlineExempt\n\t\t\t\tcontinue\n",
				New: "\t\t\t\tinput.success <- DeadlineExempt\n"},
			{ID: "C16-N2-no-rearm", File: "core/deadline.go", Expect: "N2",
				Old: "\t\t\tif deadline.Before(currDeadline) {\n\t\t\t\tsetCurrState()\n\t\t\t}",
				New: "\t\t\tif deadline.Before(currDeadline) && len(duties) == 1 {\n\t\t\t\tsetCurrState()\n\t\t\t}"},
			{ID: "C16-N2-wrong-status", File: "core/deadline.go", Expect: "N2",
				Old: "\t\t\t\tinput.success <- DeadlineExpired\n\t\t\t\tcontinue",
				New: "\t\t\t\tinput.success <- DeadlineScheduled\n\t\t\t\tcontinue"},
			{ID: "C16-N3-second-droppable", File: "core/deadline.go", Expect: "N3|input",
				Old: "\t\t\tif deadline.Before(currDeadline) {\n\t\t\t\tsetCurrState()\n\t\t\t}",
				New: "\t\t\tif deadline.Before(currDeadline) {\n\t\t\t\tsetCurrState()\n\t\t\t}\n\n\t\t\tif len(duties) > 4096 {\n\t\t\t\tdelete(duties, input.duty)\n\t\t\t}"},
			{ID: "C16-N5-skip-recompute-when-empty", File: "core/deadline.go", Expect: "N5",
				Old: "\t\t\tdelete(duties, currDuty)\n\t\t\tsetCurrState()",
				New: "\t\t\tdelete(duties, currDuty)\n\n\t\t\tif len(duties) > 0 {\n\t\t\t\tsetCurrState()\n\t\t\t}"},
			{ID: "C16-N4-latest", File: "core/deadline.go", Expect: "N4",
				Old: "\t\tif currDeadline.After(dutyDeadline) {",
				New: "\t\tif currDeadline.Before(dutyDeadline) {"},
			{ID: "C16-N4-split-update", File: "core/deadline.go", Expect: "N4",
				Old: "\t\tif currDeadline.After(dutyDeadline) {\n\t\t\tcurrDuty = duty\n",
				New: "\t\tcurrDuty = duty\n\t\tif currDeadline.After(dutyDeadline) {\n"},
			// added with the path-based reformulation (h1617)
			{ID: "C16-N2-stale-clock", File: "core/deadline.go", Expect: "N2|reads the clock after",
				Old:  "\tfor {\n\t\tselect {\n\t\tcase <-ctx.Done():\n\t\t\treturn\n\t\tcase input := <-d.inputChan:",
				New:  "\tfor {\n\t\tnow := d.clock.Now()\n\n\t\tselect {\n\t\tcase <-ctx.Done():\n\t\t\treturn\n\t\tcase input := <-d.inputChan:",
				More: [][2]string{{"\t\t\tif deadline.Before(d.clock.Now()) {", "\t\t\tif deadline.Before(now) {"}}},
			{ID: "C16-N1-helper-sends-in-input-case", File: "core/deadline.go", Expect: "N1|flush",
				Old:  "\t\t\tinput.success <- DeadlineScheduled\n",
				New:  "\t\t\tinput.success <- DeadlineScheduled\n\n\t\t\td.flush(input.duty)\n",
				More: [][2]string{{"// C returns the deadline channel.", "func (d *deadliner) flush(duty Duty) {\n\tselect {\n\tcase d.deadlineChan <- duty:\n\tdefault:\n\t}\n}\n\n// C returns the deadline channel."}}},
			{ID: "C16-N1-closure-goroutine", File: "core/deadline.go", Expect: "N1|stays local",
				Old: "\t\t\tif deadline.Before(currDeadline) {\n\t\t\t\tsetCurrState()\n\t\t\t}",
				New: "\t\t\tif deadline.Before(currDeadline) {\n\t\t\t\tgo setCurrState()\n\t\t\t}"},
			{ID: "C16-N2-no-reply-exempt", File: "core/deadline.go", Expect: "N2",
				Old: "\t\t\t\tinput.success <- DeadlineExempt\n\t\t\t\tcontinue\n",
				New: "\t\t\t\tcontinue\n"},
			{ID: "C16-N3-clear-set", File: "core/deadline.go", Expect: "N3|without report",
				Old: "\t\t\tdelete(duties, currDuty)\n",
				New: "\t\t\tclear(duties)\n"},
			{ID: "C16-N5-recompute-before-delete", File: "core/deadline.go", Expect: "N5",
				Old: "\t\t\tdelete(duties, currDuty)\n\t\t\tsetCurrState()",
				New: "\t\t\tsetCurrState()\n\t\t\tdelete(duties, currDuty)"},
			{ID: "C16-N4-ignore-ok", File: "core/deadline.go", Expect: "N4|never-expiring",
				Old: "\t\tif !ok {\n\t\t\t// Ignore the duties that never expire.\n\t\t\tcontinue\n\t\t}\n",
				New: "\t\t_ = ok\n"},
			// round 3: collect-then-select form of getCurrDuty (elements of the collected slice are followed)
			{ID: "C16-N4-two-pass-latest", File: "core/deadline.go", Expect: "N4|earliest",
				Old: "\tfor duty := range duties {\n\t\tdutyDeadline, ok := deadlineFunc(duty)\n\t\tif !ok {\n\t\t\t// Ignore the duties that never expire.\n\t\t\tcontinue\n\t\t}\n\n\t\tif currDeadline.After(dutyDeadline) {\n\t\t\tcurrDuty = duty\n\t\t\tcurrDeadline = dutyDeadline\n\t\t}\n\t}\n",
				New: "\ttype cand struct {\n\t\tduty Duty\n\t\tdl   time.Time\n\t}\n\n\tvar cands []cand\n\n\tfor duty := range duties {\n\t\tif dl, ok := deadlineFunc(duty); ok {\n\t\t\tcands = append(cands, cand{duty: duty, dl: dl})\n\t\t}\n\t}\n\n\tfor _, c := range cands {\n\t\tif currDeadline.Before(c.dl) {\n\t\t\tcurrDuty = c.duty\n\t\t\tcurrDeadline = c.dl\n\t\t}\n\t}\n"},
			{ID: "C16-N4-two-pass-duty-not-updated", File: "core/deadline.go", Expect: "N4|together",
				Old: "\tfor duty := range duties {\n\t\tdutyDeadline, ok := deadlineFunc(duty)\n\t\tif !ok {\n\t\t\t// Ignore the duties that never expire.\n\t\t\tcontinue\n\t\t}\n\n\t\tif currDeadline.After(dutyDeadline) {\n\t\t\tcurrDuty = duty\n\t\t\tcurrDeadline = dutyDeadline\n\t\t}\n\t}\n",
				New: "\ttype cand struct {\n\t\tduty Duty\n\t\tdl   time.Time\n\t}\n\n\tvar cands []cand\n\n\tfor duty := range duties {\n\t\tif dl, ok := deadlineFunc(duty); ok {\n\t\t\tcands = append(cands, cand{duty: duty, dl: dl})\n\t\t}\n\t}\n\n\tfor _, c := range cands {\n\t\tif currDeadline.After(c.dl) {\n\t\t\tcurrDeadline = c.dl\n\t\t}\n\t}\n"},
			{ID: "C16-N4-select-not-earlier", File: "core/deadline.go", Expect: "N4|earliest",
				Old: "\t\tif currDeadline.After(dutyDeadline) {",
				New: "\t\tif !currDeadline.After(dutyDeadline) {"},
			// round 4: the Expired answer depends on the duty's own deadline and the clock only
			{ID: "C16-N2-expired-by-armed-deadline", File: "core/deadline.go", Expect: "N2|only for a passed deadline",
				Old: "\t\t\tif deadline.Before(d.clock.Now()) {",
				New: "\t\t\tif deadline.Before(d.clock.Now()) || deadline.Before(currDeadline) {"},
			{ID: "C16-N2-expired-when-many-pending", File: "core/deadline.go", Expect: "N2|only for a passed deadline",
				Old: "\t\t\tif deadline.Before(d.clock.Now()) {",
				New: "\t\t\tif late := d.clock.Now().After(deadline); late || len(duties) >= 1024 {"},
			{ID: "C16-N2-expired-older-slot", File: "core/deadline.go", Expect: "N2|only for a passed deadline",
				Old: "\t\t\tinput.success <- DeadlineScheduled\n",
				New: "\t\t\tif input.duty.Slot < currDuty.Slot {\n\t\t\t\tinput.success <- DeadlineExpired\n\t\t\t\tcontinue\n\t\t\t}\n\n\t\t\tinput.success <- DeadlineScheduled\n"},
			{ID: "C16-N2-expired-vs-armed-deadline-only", File: "core/deadline.go", Expect: "N2|only for a passed deadline",
				Old: "\t\t\tif deadline.Before(d.clock.Now()) {",
				New: "\t\t\tif deadline.Before(currDeadline) {"},
			// round 4: N6, the pending collection stops being keyed by the duty and nothing tests membership
			{ID: "C16-N6-slice-append", File: "core/deadline.go", Expect: "N6|idempotent",
				Old: "\t\t\tduties[input.duty] = true\n",
				New: "\t\t\tduties = append(duties, input.duty)\n",
				More: [][2]string{
					{"import (\n\t\"context\"\n", "import (\n\t\"context\"\n\t\"slices\"\n"},
					{"\tduties := make(map[Duty]bool)\n", "\tvar duties []Duty\n"},
					{"\t\t\tdelete(duties, currDuty)\n", "\t\t\tif i := slices.Index(duties, currDuty); i >= 0 {\n\t\t\t\tduties = slices.Delete(duties, i, i+1)\n\t\t\t}\n"},
					{"func getCurrDuty(duties map[Duty]bool, ", "func getCurrDuty(duties []Duty, "},
					{"\tfor duty := range duties {\n", "\tfor _, duty := range duties {\n"},
				}},
			{ID: "C16-N6-slice-insert-front", File: "core/deadline.go", Expect: "N6|idempotent",
				Old: "\t\t\tduties[input.duty] = true\n",
				New: "\t\t\tduties = slices.Insert(duties, 0, input.duty)\n",
				More: [][2]string{
					{"import (\n\t\"context\"\n", "import (\n\t\"context\"\n\t\"slices\"\n"},
					{"\tduties := make(map[Duty]bool)\n", "\tvar duties []Duty\n"},
					{"\t\t\tdelete(duties, currDuty)\n", "\t\t\tif i := slices.Index(duties, currDuty); i >= 0 {\n\t\t\t\tduties = slices.Delete(duties, i, i+1)\n\t\t\t}\n"},
					{"func getCurrDuty(duties map[Duty]bool, ", "func getCurrDuty(duties []Duty, "},
					{"\tfor duty := range duties {\n", "\tfor _, duty := range duties {\n"},
				}},
			{ID: "C16-N6-enqueue-helper-grow-then-store", File: "core/deadline.go", Expect: "N6|idempotent",
				Old: "\t\t\tduties[input.duty] = true\n",
				New: "\t\t\tduties = d.enqueue(duties, input.duty)\n",
				More: append([][2]string{
					{"import (\n\t\"context\"\n", "import (\n\t\"context\"\n\t\"slices\"\n"},
					{"\tduties := make(map[Duty]bool)\n", "\tvar duties []Duty\n"},
					{"\t\t\tdelete(duties, currDuty)\n", "\t\t\tif i := slices.Index(duties, currDuty); i >= 0 {\n\t\t\t\tduties = slices.Delete(duties, i, i+1)\n\t\t\t}\n"},
					{"func getCurrDuty(duties map[Duty]bool, ", "func getCurrDuty(duties []Duty, "},
					{"\tfor duty := range duties {\n", "\tfor _, duty := range duties {\n"},
				}, [2]string{"// C returns the deadline channel.",
					"func (d *deadliner) enqueue(q []Duty, duty Duty) []Duty {\n\tq = append(q, Duty{})\n\tcopy(q[1:], q)\n\tq[0] = duty\n\n\treturn q\n}\n\n// C returns the deadline channel."})},
			// round 5: N7, Add answers without the run goroutine's reply
			{ID: "C16-N7-busy-default-scheduled", File: "core/deadline.go", Expect: "N7|reply",
				Old: "\tcase d.inputChan <- deadlineInput{duty: duty, success: success}:\n\t}\n",
				New: "\tcase d.inputChan <- deadlineInput{duty: duty, success: success}:\n\tdefault:\n\t\treturn DeadlineScheduled\n\t}\n"},
			{ID: "C16-N7-no-wait-for-reply", File: "core/deadline.go", Expect: "N7|reply",
				Old: "\tcase status := <-success:\n\t\treturn status\n\t}\n",
				New: "\tcase status := <-success:\n\t\treturn status\n\tdefault:\n\t\treturn DeadlineScheduled\n\t}\n"},
			{ID: "C16-N7-mutex-mirror-expired", File: "core/deadline.go", Expect: "N7|reply",
				Old: "func (d *deadliner) Add(duty Duty) DeadlineStatus {\n",
				New: "func (d *deadliner) Add(duty Duty) DeadlineStatus {\n\td.mu.Lock()\n\tdone := d.reported[duty]\n\td.mu.Unlock()\n\n\tif done {\n\t\treturn DeadlineExpired\n\t}\n\n",
				More: [][2]string{
					{"import (\n\t\"context\"\n", "import (\n\t\"context\"\n\t\"sync\"\n"},
					{"\tquit         chan struct{}\n}", "\tquit         chan struct{}\n\tmu           sync.Mutex\n\treported     map[Duty]bool\n}"},
					{"\t\tquit:         make(chan struct{}),\n", "\t\tquit:         make(chan struct{}),\n\t\treported:     make(map[Duty]bool),\n"},
					{"\t\t\tcase d.deadlineChan <- currDuty:\n", "\t\t\tcase d.deadlineChan <- currDuty:\n\t\t\t\td.mu.Lock()\n\t\t\t\td.reported[currDuty] = true\n\t\t\t\td.mu.Unlock()\n"},
				}},
			// round 5: N8, the timer can fire before the selected deadline and the timer case does not re-check
			{ID: "C16-N8-cap-if", File: "core/deadline.go", Expect: "N8|timer armed",
				Old: "\t\tcurrTimer = d.clock.NewTimer(currDeadline.Sub(d.clock.Now()))\n",
				New: "\t\twait := currDeadline.Sub(d.clock.Now())\n\t\tif wait > time.Hour {\n\t\t\twait = time.Hour\n\t\t}\n\n\t\tcurrTimer = d.clock.NewTimer(wait)\n"},
			{ID: "C16-N8-swapped-sub", File: "core/deadline.go", Expect: "N8|timer armed",
				Old: "\tcurrTimer := d.clock.NewTimer(currDeadline.Sub(d.clock.Now()))\n",
				New: "\tcurrTimer := d.clock.NewTimer(d.clock.Now().Sub(currDeadline))\n"},
			{ID: "C16-N8-half-wait", File: "core/deadline.go", Expect: "N8|timer armed",
				Old: "\t\tcurrTimer = d.clock.NewTimer(currDeadline.Sub(d.clock.Now()))\n",
				New: "\t\tcurrTimer = d.clock.NewTimer(currDeadline.Sub(d.clock.Now()) / 2)\n"},
			{ID: "C16-N8-poll-constant", File: "core/deadline.go", Expect: "N8|timer armed",
				Old: "\t\tcurrTimer = d.clock.NewTimer(currDeadline.Sub(d.clock.Now()))\n",
				New: "\t\tcurrTimer = d.clock.NewTimer(slotPoll)\n",
				More: [][2]string{{"\tmarginFactor = 12\n", "\tmarginFactor = 12\n\n\tslotPoll = 12 * time.Second\n"}}},
			{ID: "C16-N8-helper-early-return-cap", File: "core/deadline.go", Expect: "N8|timer armed",
				Old: "\t\tcurrTimer = d.clock.NewTimer(currDeadline.Sub(d.clock.Now()))\n",
				New: "\t\tcurrTimer = d.clock.NewTimer(d.waitFor(currDeadline))\n",
				More: [][2]string{{"// C returns the deadline channel.", "func (d *deadliner) waitFor(deadline time.Time) time.Duration {\n\twait := deadline.Sub(d.clock.Now())\n\tif wait >= 6*time.Hour {\n\t\treturn 6 * time.Hour\n\t}\n\n\treturn wait\n}\n\n// C returns the deadline channel."}}},
		},
	})
}

const dlnr = "core.deadliner"

// h1617Agg collects the per-path verdicts of one obligation (keyed by construct and site) and reports each
// obligation once: violated if some path violates it, undecided if some path could not be decided.
type h1617Agg struct {
	c     *rt.Ctx
	order []string
	items map[string]*h1617Item
}

type h1617Item struct {
	construct   string
	pos         token.Pos
	bad, unsure string
}

func newAgg(c *rt.Ctx) *h1617Agg { return &h1617Agg{c: c, items: map[string]*h1617Item{}} }

func (a *h1617Agg) item(construct string, pos token.Pos) *h1617Item {
	k := construct + "@" + a.c.P.Pos(pos)
	it := a.items[k]
	if it == nil {
		it = &h1617Item{construct: construct, pos: pos}
		a.items[k] = it
		a.order = append(a.order, k)
	}
	return it
}

func (a *h1617Agg) ok(construct string, pos token.Pos) { a.item(construct, pos) }

func (a *h1617Agg) check(construct string, pos token.Pos, ok bool, detail string) {
	it := a.item(construct, pos)
	if !ok && it.bad == "" {
		it.bad = detail
	}
}

func (a *h1617Agg) bad(construct string, pos token.Pos, detail string) {
	a.check(construct, pos, false, detail)
}

func (a *h1617Agg) unsure(construct string, pos token.Pos, detail string) {
	it := a.item(construct, pos)
	if it.unsure == "" {
		it.unsure = detail
	}
}

func (a *h1617Agg) flush() {
	for _, k := range a.order {
		it := a.items[k]
		switch {
		case it.bad != "":
			a.c.Bad(it.construct, it.pos, it.bad)
		case it.unsure != "":
			a.c.Unsure(it.construct, it.pos, it.unsure)
		default:
			a.c.Good(it.construct, it.pos, "")
		}
	}
}

// h1617Dump prints the explored paths when H1617_TRACE is set (debugging aid).
func h1617Dump(what string, res *an.TraceResult) {
	if os.Getenv("H1617_TRACE") == "" {
		return
	}
	fmt.Printf("TRACE %s: %d paths truncated=%v pruned=%d\n", what, len(res.Paths), res.Truncated, res.Pruned)
	for i, p := range res.Paths {
		fmt.Printf(" path %d end=%s\n", i, p.End)
		for j, e := range p.Evs {
			fmt.Printf("   %3d %s%s\n", j, strings.Repeat(" ", e.Depth), e.String())
		}
	}
}

// lessFact is a decided comparison of two instants on a path: truth of (x earlier than y).
type lessFact struct {
	pos   int
	x, y  *an.Sym
	truth bool
}

// h1617Index maps the result symbols of the call events of a path to their positions.
func h1617Index(p *an.Path) map[*an.Sym]int {
	m := map[*an.Sym]int{}
	for i, e := range p.Evs {
		if e.Res != nil && (e.Kind == "call" || e.Kind == "lookup" || e.Kind == "builtin") {
			m[e.Res] = i
		}
	}
	return m
}

// lessFacts lists the branch decisions of a path on time.Time.Before / After results, normalised to "x earlier than y".
func lessFacts(p *an.Path) []lessFact {
	idx := h1617Index(p)
	var out []lessFact
	for i, e := range p.Evs {
		if e.Kind != "branch" {
			continue
		}
		ci, ok := idx[e.Args[0]]
		if !ok {
			continue
		}
		call := p.Evs[ci]
		if call.Kind != "call" || len(call.Args) != 2 {
			continue
		}
		switch call.Name {
		case "time.Time.Before":
			out = append(out, lessFact{i, call.Args[0], call.Args[1], e.Taken})
		case "time.Time.After":
			out = append(out, lessFact{i, call.Args[1], call.Args[0], e.Taken})
		}
	}
	return out
}

// equalFacts lists the branch decisions of a path on time.Time.Equal results (x and y are the same instant).
func equalFacts(p *an.Path) []lessFact {
	idx := h1617Index(p)
	var out []lessFact
	for i, e := range p.Evs {
		if e.Kind != "branch" {
			continue
		}
		ci, ok := idx[e.Args[0]]
		if !ok {
			continue
		}
		if call := p.Evs[ci]; call.Kind == "call" && len(call.Args) == 2 && call.Name == "time.Time.Equal" {
			out = append(out, lessFact{i, call.Args[0], call.Args[1], e.Taken})
		}
	}
	return out
}

// boolFact returns the decided truth of a boolean symbol on a path (latest decision before position before).
func boolFact(p *an.Path, s *an.Sym, before int) (truth, known bool) {
	if v, ok := s.IsConstBool(); ok {
		return v, true
	}
	for i, e := range p.Evs {
		if i >= before {
			break
		}
		if e.Kind == "branch" && an.SymEq(e.Args[0], s) {
			truth, known = e.Taken, true
		}
	}
	return
}

// branchDependsOn reports whether some branch decision of the path in (from, to) tests a value computed from base
// (through pure operations or calls taking it as an argument).
func branchDependsOn(p *an.Path, base *an.Sym, from, to int) bool {
	derived := map[string]bool{base.Key(): true}
	var contains func(s *an.Sym, d int) bool
	contains = func(s *an.Sym, d int) bool {
		if s == nil || d > 8 {
			return false
		}
		if derived[s.Key()] {
			return true
		}
		for _, a := range s.Args {
			if contains(a, d+1) {
				return true
			}
		}
		for _, f := range s.Fields {
			if contains(f, d+1) {
				return true
			}
		}
		return false
	}
	for i, e := range p.Evs {
		if i >= to {
			break
		}
		switch e.Kind {
		case "call", "builtin":
			if e.Res == nil {
				continue
			}
			for _, a := range e.Args {
				if contains(a, 0) {
					derived[e.Res.Key()] = true
				}
			}
		case "branch":
			if b := e.Args[0]; b.Kind == an.KBin && len(b.Args) == 2 && (b.Args[0].IsNil() || b.Args[1].IsNil()) {
				continue // nil test (error plumbing), not a test of the value's content
			}
			if i > from && contains(e.Args[0], 0) {
				return true
			}
		}
	}
	return false
}

// c16DeadlineTests lists the positions in (from, to) of the branch decisions of the path that test a value computed
// from base (same notion as branchDependsOn).
func c16DeadlineTests(p *an.Path, base *an.Sym, from, to int) []int {
	var out []int
	for i := from + 1; i < to && i < len(p.Evs); i++ {
		if p.Evs[i].Kind == "branch" && branchDependsOn(p, base, i-1, i+1) {
			out = append(out, i)
		}
	}
	return out
}

// unresolvedLocalCall reports a call, at or after position from, through a function value the walker could not
// resolve to code (a function literal kept somewhere it cannot follow): what happens behind it is unknown, so an
// obligation that needs an effect after `from` is undecided rather than violated.
func unresolvedLocalCall(evs []an.Ev, from int) bool {
	for i := from; i < len(evs) && i >= 0; i++ {
		e := evs[i]
		if e.Kind != "call" || e.Callee != nil {
			continue
		}
		ci, ok := e.In.(ssa.CallInstruction)
		if !ok {
			continue
		}
		cc := ci.Common()
		if cc.IsInvoke() {
			continue
		}
		if _, isB := cc.Value.(*ssa.Builtin); isB {
			continue
		}
		if _, named := cc.Value.Type().(*types.Named); named {
			continue // e.g. a DeadlineFunc handed in by the caller
		}
		if _, _, isField := an.FieldOf(cc.Value); isField {
			continue // a callback held in a struct field
		}
		return true
	}
	return false
}

func isDutyKeyedMap(t types.Type) bool {
	m, ok := t.Underlying().(*types.Map)
	return ok && an.TypeName(m.Key()) == "core.Duty"
}

func isInvokeOf(v ssa.Value, typ, method string) bool {
	call, ok := v.(*ssa.Call)
	return ok && call.Call.IsInvoke() && call.Call.Method.Name() == method && an.TypeName(call.Call.Value.Type()) == typ
}

const (
	clockT = "github.com/jonboulle/clockwork.Clock"
	timerT = "github.com/jonboulle/clockwork.Timer"
)

func fieldIndexOf(c *rt.Ctx, pkgRel, typ, field string) int {
	obj := c.Pkg(pkgRel).Types.Scope().Lookup(typ)
	if obj == nil {
		c.Bail("type %s.%s not found", pkgRel, typ)
	}
	st, ok := obj.Type().Underlying().(*types.Struct)
	if !ok {
		c.Bail("%s.%s is not a struct", pkgRel, typ)
	}
	for i := 0; i < st.NumFields(); i++ {
		if st.Field(i).Name() == field {
			return i
		}
	}
	c.Bail("field %s.%s.%s not found", pkgRel, typ, field)
	return -1
}

// c16Iter is one explored iteration of the deadliner's event loop.
type c16Iter struct {
	p      *an.Path
	selPos int
	sel    an.Ev
}

func c16(c *rt.Ctx) {
	run := c.Fn("core.deadliner.run")
	pkgFuncs := an.PkgFuncs(c.SSAPkg("core"))
	// the selection function, by name or (should it be renamed) by signature: (duty-keyed map, DeadlineFunc) -> ...
	getCurr := c.FnOpt("core.getCurrDuty")
	if getCurr == nil {
		for _, fn := range pkgFuncs {
			if fn.Parent() == nil && len(fn.Params) == 2 && isDutyKeyedMap(fn.Params[0].Type()) && an.TypeName(fn.Params[1].Type()) == "core.DeadlineFunc" {
				getCurr = fn
			}
		}
	}
	needGetCurr := func() {
		if getCurr == nil {
			c.Bail("function core.getCurrDuty not found")
		}
	}
	// the code that can only run on the run goroutine: run, its local closures and helpers only called from them
	actor := an.ConfinedTo(run, pkgFuncs)
	var actorFns []*ssa.Function
	for _, fn := range pkgFuncs {
		if actor[fn] {
			actorFns = append(actorFns, fn)
		}
	}

	// the event select: the select of the actor with a receive from d.inputChan
	var evSel *ssa.Select
	nSel := 0
	inIdx, tmIdx := -1, -1
	for _, fn := range actorFns {
		for _, in := range an.Instrs(fn, false) {
			sel, ok := in.(*ssa.Select)
			if !ok {
				continue
			}
			for i, st := range sel.States {
				if k, _, ok := an.FieldOf(an.Resolve(st.Chan)); ok && k == dlnr+".inputChan" && st.Dir == types.RecvOnly {
					evSel, inIdx = sel, i
					nSel++
				}
			}
		}
	}
	var iters []c16Iter
	var res *an.TraceResult
	explore := func() {
		if res != nil {
			return
		}
		if evSel == nil || nSel != 1 {
			c.Bail("run: expected exactly one event select receiving from inputChan in the run goroutine, found %d", nSel)
		}
		for i, st := range evSel.States {
			if st.Dir == types.RecvOnly && isInvokeOf(an.Resolve(st.Chan), timerT, "Chan") {
				tmIdx = i
			}
		}
		root := evSel.Parent()
		start := evSel.Block()
		if l := an.InnermostLoop(root, start); l != nil {
			start = l.Header
		}
		tr := &an.Tracer{Root: root, Start: start, Stop: start,
			Inline: func(fn *ssa.Function) bool {
				return (fn.Pkg == run.Pkg || fn.Parent() != nil) && (fn != getCurr || getCurr == nil)
			}}
		res = tr.Run()
		h1617Dump("C16 event loop", res)
		if res.Truncated {
			c.Bail("run: too many paths through one iteration of the event loop")
		}
		for _, p := range res.Paths {
			for i, e := range p.Evs {
				if e.Kind == "select" && e.In == ssa.Instruction(evSel) {
					iters = append(iters, c16Iter{p, i, e})
					break
				}
			}
		}
		if len(iters) == 0 {
			c.Bail("run: no path reaches the event select")
		}
	}
	// iterEnd: the path ran one whole iteration of the event loop (as opposed to leaving the goroutine)
	iterEnd := func(p *an.Path) bool {
		return p.End == "stop" || (p.End == "return" && evSel.Parent() != run)
	}
	caseName := func(i int) string {
		switch i {
		case inIdx:
			return "input"
		case tmIdx:
			return "timer"
		}
		return "other"
	}
	// covered: every static site of a class that lies in the actor was executed on some explored path
	covered := func(agg *h1617Agg, what string, in ssa.Instruction) {
		if !res.Visited[in] {
			agg.unsure(what, posOf(in), "this site in "+an.FuncName(in.Parent())+" was not reached by the path enumeration of the event loop (helper not followed?)")
		}
	}
	// fromGetCurr: the symbol is result #idx of getCurrDuty: either of a call on this path or the content of a
	// variable every assignment of which (anywhere, closures included) is that result.
	fromGetCurr := func(s *an.Sym, idx int) (ok, decided bool) {
		want := "core.Duty"
		if idx == 1 {
			want = "time.Time"
		}
		tuple := getCurr.Signature.Results().Len() == 2
		// a component of a getCurrDuty result: result #idx of the pair, or (should the pair become a struct) the
		// field of the matching type
		var isResSeen map[ssa.Value]bool
		var isRes func(v ssa.Value) bool
		isRes = func(v ssa.Value) bool {
			if an.TypeName(v.Type()) != want {
				return false
			}
			for i := 0; i < 4; i++ {
				switch x := v.(type) {
				case *ssa.Phi:
					// a variable kept in registers: every value flowing into it is such a result (the phi itself
					// excepted: loop-carried)
					if isResSeen == nil {
						isResSeen = map[ssa.Value]bool{}
					}
					if isResSeen[x] {
						return true
					}
					isResSeen[x] = true
					n := 0
					for _, e := range x.Edges {
						if e == ssa.Value(x) {
							continue
						}
						n++
						if !isRes(e) {
							return false
						}
					}
					return n > 0
				case *ssa.Extract:
					if call, isCall := x.Tuple.(*ssa.Call); isCall && call.Call.StaticCallee() == getCurr {
						return !tuple || x.Index == idx
					}
					return false
				case *ssa.Field:
					v = x.X
				case *ssa.UnOp:
					// field of a struct-typed local holding the result
					fa, isFA := x.X.(*ssa.FieldAddr)
					if x.Op != token.MUL || !isFA {
						return false
					}
					al, isAl := fa.X.(*ssa.Alloc)
					if !isAl || an.UniqueStore(al) == nil {
						return false
					}
					v = an.UniqueStore(al)
				case *ssa.Call:
					return !tuple && x.Call.StaticCallee() == getCurr
				default:
					return false
				}
			}
			return false
		}
		switch s.Kind {
		case an.KExtract, an.KField:
			top := s
			for i := 0; i < 4 && (s.Kind == an.KExtract || s.Kind == an.KField); i++ {
				s = s.Args[0]
			}
			if call, isCall := s.V.(*ssa.Call); s.Kind == an.KOpaque && isCall && call.Call.StaticCallee() == getCurr {
				return !tuple || (top.Kind == an.KExtract && top.Index == idx), true
			}
			return false, true
		case an.KInit:
			if len(s.Args) != 1 {
				return false, false
			}
			var stores []*ssa.Store
			if f := s.Args[0].Field; f != "" {
				// a struct field: every store into that field anywhere in the package
				for _, fn := range pkgFuncs {
					for _, in := range an.Instrs(fn, false) {
						if st, isSt := in.(*ssa.Store); isSt {
							if fa, isFA := st.Addr.(*ssa.FieldAddr); isFA && an.FieldKey(fa.X.Type(), fa.Field) == f {
								stores = append(stores, st)
							}
						}
					}
				}
			} else if al := c16VarCell(s.Args[0]); al != nil {
				if an.AddrEscapes(al) {
					return false, false
				}
				stores = an.AllStores(al)
			} else {
				return false, false
			}
			if len(stores) == 0 {
				return false, false
			}
			for _, st := range stores {
				if !isRes(st.Val) {
					return false, true
				}
			}
			return true, true
		case an.KOpaque:
			if s.ID == 0 {
				isResSeen = nil
				r := isRes(s.V)
				return r, r
			}
			return false, true
		case an.KParam:
			return false, false
		}
		return false, true
	}
	isDeadlineChan := func(s *an.Sym) bool { return s.FieldName() == dlnr+".deadlineChan" }

	c.Rule("N1", 4, func() {
		needGetCurr()
		explore()
		if tmIdx < 0 {
			c.Bail("run: the event select has no case receiving from the timer's channel")
		}
		agg := newAgg(c)
		// static sweep: every send on deadlineChan in package core
		n := 0
		for _, fn := range pkgFuncs {
			for _, in := range an.Instrs(fn, false) {
				var chans []ssa.Value
				switch x := in.(type) {
				case *ssa.Send:
					chans = append(chans, x.Chan)
				case *ssa.Select:
					for _, st := range x.States {
						if st.Dir == types.SendOnly {
							chans = append(chans, st.Chan)
						}
					}
				}
				for _, ch := range chans {
					if k, _, ok := an.FieldOf(an.Resolve(ch)); ok && k == dlnr+".deadlineChan" {
						n++
						if !actor[fn] {
							agg.bad(an.FuncName(fn)+" send deadlineChan in timer case", posOf(in), "expiry channel written outside the deadliner.run goroutine")
						} else {
							covered(agg, an.FuncName(fn)+" send deadlineChan in timer case", in)
						}
					}
				}
			}
		}
		// dynamic: every attempted send on the expiry channel happens in the timer case, with the duty chosen by getCurrDuty
		for _, it := range iters {
			for _, e := range it.p.Evs[it.selPos+1:] {
				var sent []*an.Sym
				switch e.Kind {
				case "send":
					if isDeadlineChan(e.Args[0]) {
						sent = append(sent, e.Args[1])
					}
				case "select":
					for _, st := range e.States {
						if st.Dir == types.SendOnly && isDeadlineChan(st.Chan) {
							sent = append(sent, st.Send)
						}
					}
				}
				for _, v := range sent {
					n++
					name := an.FuncName(e.Fn)
					agg.check(name+" send deadlineChan in timer case", posOf(e.In), it.sel.Chosen == tmIdx,
						"an expiry is sent in the "+caseName(it.sel.Chosen)+" case of the event select: send is not confined to the timer case")
					ok, decided := fromGetCurr(v, 0)
					switch {
					case !decided:
						agg.unsure(name+" sent duty is getCurrDuty's", posOf(e.In), "cannot trace the origin of the reported duty ("+v.Key()+")")
					default:
						agg.check(name+" sent duty is getCurrDuty's", posOf(e.In), ok, "the reported duty is not the one selected by getCurrDuty")
					}
				}
			}
			// sends before the select of the same iteration (outside any case)
			for _, e := range it.p.Evs[:it.selPos] {
				if e.Kind == "send" && isDeadlineChan(e.Args[0]) {
					agg.bad(an.FuncName(e.Fn)+" send deadlineChan in timer case", posOf(e.In), "an expiry is sent outside the timer case of the event select")
				}
			}
		}
		agg.flush()
		if n == 0 {
			c.Bail("no send on deadlineChan found")
		}
		// ownership: no goroutine is started from the actor; its function literals only run synchronously inside it
		for _, fn := range pkgFuncs {
			if fn.Parent() == nil {
				continue
			}
			top := fn
			for top.Parent() != nil {
				top = top.Parent()
			}
			if !actor[top] {
				continue
			}
			why := an.ClosureStaysLocal(fn)
			if why == "passed as an argument" && c16SyncHigherOrder(fn) {
				why = "" // handed to a synchronous higher-order function of sort/slices/maps: runs before that call returns
			}
			switch why {
			case "":
				c.Good(an.FuncName(top)+" closure "+an.FuncName(fn)+" stays local", fn.Pos(), "")
			case "go":
				c.Bad(an.FuncName(top)+" closure "+an.FuncName(fn)+" stays local", fn.Pos(), "a closure over the duty set/timer is started as a goroutine: deadliner.run shares its state")
			default:
				c.Unsure(an.FuncName(top)+" closure "+an.FuncName(fn)+" stays local", fn.Pos(), "cannot prove that the closure only runs on the run goroutine: "+why)
			}
		}
		for _, fn := range actorFns {
			for _, in := range an.Instrs(fn, false) {
				g, ok := in.(*ssa.Go)
				if !ok {
					continue
				}
				if mc, isMC := g.Call.Value.(*ssa.MakeClosure); isMC && mc.Fn.(*ssa.Function).Parent() != nil {
					continue // reported above
				}
				c.Bad(an.FuncName(fn)+" starts goroutine", g.Pos(), "deadliner.run shares its duty set/timer with another goroutine")
			}
		}
		// run is started exactly once per deadliner, as a goroutine on the freshly constructed value
		starts := 0
		for _, fn := range pkgFuncs {
			for _, in := range an.Instrs(fn, false) {
				ci, ok := in.(ssa.CallInstruction)
				if !ok || ci.Common().StaticCallee() != run {
					continue
				}
				starts++
				_, isGo := in.(*ssa.Go)
				if !isGo && fn.Parent() != nil && an.ClosureStaysLocal(fn) == "go" {
					isGo = true // go func() { d.run(...) }()
				}
				fresh, decided := c16Fresh(ci.Common().Args[0], 0)
				name := an.FuncName(fn) + " starts run"
				switch {
				case !isGo:
					c.Bad(name, in.Pos(), "deadliner.run must be started as a goroutine (it never returns before the context is cancelled)")
				case !decided:
					c.Unsure(name, in.Pos(), "cannot decide whether run is started on a freshly constructed deadliner")
				default:
					c.Check(name, in.Pos(), fresh, "deadliner.run must be started once, as a goroutine, on the freshly constructed deadliner")
				}
			}
		}
		if starts != 1 {
			c.Unsure("run starts", run.Pos(), "expected exactly one start of deadliner.run")
		}
	})

	c.Rule("N2", 9, func() {
		needGetCurr()
		explore()
		agg := newAgg(c)
		scheduled, expired, exempt := constOf(c, "core", "DeadlineScheduled"), constOf(c, "core", "DeadlineExpired"), constOf(c, "core", "DeadlineExempt")
		dutyIdx, succIdx := fieldIndexOf(c, "core", "deadlineInput", "duty"), fieldIndexOf(c, "core", "deadlineInput", "success")
		// static: insertions into a duty-keyed map in the actor
		nIns := 0
		for _, fn := range actorFns {
			if fn == getCurr {
				continue
			}
			for _, in := range an.Instrs(fn, false) {
				if mu, ok := in.(*ssa.MapUpdate); ok && isDutyKeyedMap(mu.Map.Type()) {
					nIns++
					covered(agg, "run insert only if the duty can expire", in)
				}
			}
		}
		if nIns == 0 {
			c.Bail("no insertion into the duty set found")
		}
		seenInsert := false
		for _, it := range iters {
			p := it.p
			evs := p.Evs
			isInput := it.sel.Chosen == inIdx
			var inp *an.Sym
			if isInput {
				inp = it.sel.States[inIdx].Recv
			}
			facts := lessFacts(p)
			type dfCall struct {
				pos int
				arg *an.Sym
				res *an.Sym
			}
			var dfs []dfCall
			type reply struct {
				pos int
				val int64
				ok  bool
				in  ssa.Instruction
			}
			var replies []reply
			var inserts []int
			recompute := func(after int) bool {
				g := -1
				for i := after + 1; i < len(evs); i++ {
					e := evs[i]
					if e.Kind == "call" && e.Callee == getCurr && g < 0 {
						g = i
					}
					if g >= 0 && e.Kind == "call" && isInvokeOf(valueOf(e.In), clockT, "NewTimer") {
						return true
					}
				}
				return false
			}
			for i := it.selPos + 1; i < len(evs); i++ {
				e := evs[i]
				switch e.Kind {
				case "call":
					if call, ok := e.In.(*ssa.Call); ok && !call.Call.IsInvoke() && call.Call.StaticCallee() == nil &&
						an.TypeName(call.Call.Value.Type()) == "core.DeadlineFunc" && len(e.Args) == 1 {
						dfs = append(dfs, dfCall{i, e.Args[0], e.Res})
					}
				case "send":
					ch := e.Args[0]
					if inp != nil && ch.Kind == an.KField && ch.Index == succIdx && an.SymEq(ch.Args[0], inp) {
						v, ok := e.Args[1].IsConstInt()
						replies = append(replies, reply{i, v, ok, e.In})
					}
				case "mapupdate":
					if mu := e.In.(*ssa.MapUpdate); isDutyKeyedMap(mu.Map.Type()) && actor[e.Fn] {
						inserts = append(inserts, i)
					}
				}
			}
			if !isInput {
				for _, i := range inserts {
					agg.bad("run insert key is the registered duty", posOf(evs[i].In), "a duty enters the set in the "+caseName(it.sel.Chosen)+" case of the event select, not as a registration received on inputChan")
				}
				continue
			}
			hasReply := func(v int64) bool {
				for _, r := range replies {
					if r.ok && r.val == v {
						return true
					}
				}
				return false
			}
			for _, r := range replies {
				if !r.ok {
					agg.unsure("run registration answered exactly once", posOf(r.in), "the status sent to the caller is not a constant on this path")
				}
			}
			// the registration's own deadline: deadlineFunc applied to the received duty
			regDuty := &an.Sym{Kind: an.KField, Args: []*an.Sym{inp}, Index: dutyIdx}
			var df *dfCall
			for j := range dfs {
				if an.SymEq(dfs[j].arg, regDuty) {
					df = &dfs[j]
					break
				}
			}
			var dl, canExp *an.Sym
			if df != nil {
				dl = &an.Sym{Kind: an.KExtract, Args: []*an.Sym{df.res}, Index: 0}
				canExp = &an.Sym{Kind: an.KExtract, Args: []*an.Sym{df.res}, Index: 1}
			}
			// expiry test: (deadline earlier than now) with now read from the clock after the registration arrived
			idx := h1617Index(p)
			var expFact *lessFact
			stale := false
			if dl != nil {
				for j := range facts {
					f := &facts[j]
					if !an.SymEq(f.x, dl) {
						continue
					}
					if !isInvokeOf(f.y.V, clockT, "Now") || f.y.Kind != an.KOpaque {
						continue
					}
					if at, onPath := idx[f.y]; !onPath || f.y.ID == 0 || at < it.selPos {
						stale = true
						if expFact == nil {
							expFact = f
						}
						continue
					}
					expFact, stale = f, false
					break
				}
			}
			for _, i := range inserts {
				seenInsert = true
				e := evs[i]
				pos := posOf(e.In)
				agg.check("run insert key is the registered duty", pos, an.SymEq(e.Args[1], regDuty),
					"the set is not keyed by the duty received on inputChan (re-adding would not be idempotent)")
				if df == nil || df.pos > i {
					agg.bad("run insert only if the duty can expire", pos, "never-expiring duty can enter the set: insertion is not preceded by deadlineFunc on the registered duty")
					agg.bad("run insert only before the deadline", pos, "a duty whose deadline has passed can enter the set: insertion is not preceded by deadlineFunc on the registered duty")
					continue
				}
				t, known := boolFact(p, canExp, i)
				agg.check("run insert only if the duty can expire", pos, known && t, "never-expiring duty can enter the set: the insertion is reached without deadlineFunc's second result having been tested true")
				good := expFact != nil && expFact.pos < i && !expFact.truth
				if !good && expFact == nil && branchDependsOn(p, dl, df.pos, i) {
					agg.unsure("run insert only before the deadline", pos, "the insertion is guarded by a test of the deadline that is not a recognised `deadline.Before(clock.Now())` comparison")
				} else {
					agg.check("run insert only before the deadline", pos, good, "a duty whose deadline has passed can enter the set (it would be reported although refused): no `deadline.Before(clock.Now())` test decided false before the insertion")
				}
				if expFact != nil {
					agg.check("run expiry test reads the clock after the registration arrived", posOf(evs[expFact.pos].In), !stale,
						"the already-expired test compares the deadline with a clock value read before the event select blocked: a registration arriving after its deadline is answered Scheduled and reported")
				}
				sched := false
				for _, r := range replies {
					if r.ok && r.val == scheduled && r.pos < i {
						sched = true
					}
				}
				agg.check("run Scheduled reply precedes insertion", pos, sched, "the status reply does not precede scheduling")
				for _, r := range replies {
					if r.ok && (r.val == exempt || r.val == expired) {
						agg.bad("run refusal reply cannot reach insertion", posOf(r.in), "after answering Exempt/Expired the duty can still be inserted")
					}
				}
				// re-arm: a deadline earlier than the armed one recomputes the timer state before the next event
				var armed *lessFact
				notEarlier := false // the path decided that the new deadline is not earlier than the armed one
				for j := range facts {
					f := &facts[j]
					if f.pos > i && an.SymEq(f.x, dl) {
						if ok, _ := fromGetCurr(f.y, 1); ok {
							armed = f
							if !f.truth {
								notEarlier = true
							}
						}
					}
					if f.pos > i && an.SymEq(f.y, dl) && f.truth {
						if ok, _ := fromGetCurr(f.x, 1); ok {
							notEarlier = true // armed deadline earlier than the new one
						}
					}
				}
				for _, f := range equalFacts(p) {
					if f.pos <= i || !f.truth {
						continue
					}
					for _, pair := range [][2]*an.Sym{{f.x, f.y}, {f.y, f.x}} {
						if an.SymEq(pair[0], dl) {
							if ok, _ := fromGetCurr(pair[1], 1); ok {
								notEarlier = true // same instant
							}
						}
					}
				}
				switch {
				case recompute(i):
					agg.ok("run re-arms the timer for an earlier deadline", pos)
				case notEarlier:
					agg.ok("run re-arms the timer for an earlier deadline", pos)
				case !iterEnd(p):
					agg.ok("run re-arms the timer for an earlier deadline", pos)
				case unresolvedLocalCall(evs, i):
					agg.unsure("run re-arms the timer for an earlier deadline", pos, "a call through an unresolved function value follows the insertion")
				case armed == nil && branchDependsOn(p, dl, i, len(evs)):
					agg.unsure("run re-arms the timer for an earlier deadline", pos, "after the insertion the deadline is tested by a comparison that is not a recognised `deadline.Before(currDeadline)`")
				default:
					agg.bad("run re-arms the timer for an earlier deadline", pos, "a newly registered earlier deadline does not re-arm the timer (it would be reported late, after a later duty)")
				}
			}
			if stale && expFact != nil && len(inserts) == 0 {
				agg.check("run expiry test reads the clock after the registration arrived", posOf(evs[expFact.pos].In), false,
					"the already-expired test compares the deadline with a clock value read before the event select blocked: a registration arriving after its deadline is answered Scheduled and reported")
			}
			// refusals: decided outcomes are answered with the matching status and never scheduled
			if df != nil {
				dfPos := posOf(evs[df.pos].In)
				if t, known := boolFact(p, canExp, len(evs)); known && !t {
					agg.check("run never-expiring duty answered DeadlineExempt", dfPos, hasReply(exempt) || !iterEnd(p), "a duty that never expires is not answered DeadlineExempt")
				} else {
					agg.ok("run never-expiring duty answered DeadlineExempt", dfPos)
				}
				if expFact != nil && expFact.truth {
					agg.check("run late registration answered DeadlineExpired", posOf(evs[expFact.pos].In), hasReply(expired) || !iterEnd(p), "a duty registered after its deadline is not answered DeadlineExpired")
					for _, r := range replies {
						if r.ok && r.val != expired {
							agg.bad("run late registration answered DeadlineExpired", posOf(evs[expFact.pos].In), "a duty registered after its deadline is answered with another status")
						}
					}
				} else if expFact != nil {
					agg.ok("run late registration answered DeadlineExpired", posOf(evs[expFact.pos].In))
				}
			}
			for _, r := range replies {
				if r.ok && (r.val == exempt || r.val == expired) {
					agg.ok("run refusal reply cannot reach insertion", posOf(r.in))
				}
			}
			// the Expired answer is decided by the registration's own deadline and the clock only: a path on which the
			// deadline was decided not to lie before the clock value (or was never compared with it) and that still
			// answers Expired refuses a duty registered before its deadline (it is then never reported)
			for _, r := range replies {
				if !r.ok || r.val != expired {
					continue
				}
				what := "run DeadlineExpired answered only for a passed deadline"
				if df == nil || df.pos > r.pos {
					agg.unsure(what, posOf(r.in), "cannot identify the deadline of the registered duty on a path answering DeadlineExpired")
					continue
				}
				if t, known := boolFact(p, canExp, r.pos); known && !t {
					continue // never-expiring duty: judged by the Exempt obligation
				}
				switch {
				case expFact != nil && expFact.pos < r.pos && expFact.truth:
					agg.ok(what, posOf(r.in))
				case expFact != nil && expFact.pos < r.pos:
					agg.bad(what, posOf(r.in), "a registration is answered DeadlineExpired on a path on which its deadline was decided NOT to lie before the clock value: "+
						"the refusal depends on something else than the duty's own deadline and the time of the registration (e.g. a remembered deadline of another duty), so a duty registered before its deadline is refused and never reported")
				case branchDependsOn(p, dl, df.pos, r.pos):
					// every test of the deadline on the way to the answer compares it with the deadline of ANOTHER duty
					// (the one getCurrDuty selected): positively not a comparison with the clock
					tests := c16DeadlineTests(p, dl, df.pos, r.pos)
					foreign := len(tests) > 0
					for _, at := range tests {
						other := (*an.Sym)(nil)
						for _, f := range append(lessFacts(p), equalFacts(p)...) {
							if f.pos != at {
								continue
							}
							if an.SymEq(f.x, dl) {
								other = f.y
							} else if an.SymEq(f.y, dl) {
								other = f.x
							}
						}
						if other == nil {
							foreign = false
							break
						}
						if ok, _ := fromGetCurr(other, 1); !ok {
							foreign = false
							break
						}
					}
					if foreign {
						agg.bad(what, posOf(r.in), "a registration is answered DeadlineExpired after comparing its deadline only with the deadline of the duty selected by getCurrDuty (another duty's deadline), never with the clock: a duty registered before its deadline is refused and never reported")
					} else {
						agg.unsure(what, posOf(r.in), "the DeadlineExpired answer is guarded by a test of the deadline that is not a recognised `deadline.Before(clock.Now())` comparison")
					}
				default:
					agg.bad(what, posOf(r.in), "a registration is answered DeadlineExpired on a path that never compares its deadline with the clock: a duty registered before its deadline is refused and never reported")
				}
			}
			if iterEnd(p) {
				agg.check("run registration answered exactly once", posOf(evSel), len(replies) == 1,
					"a registration is answered "+itoa(len(replies))+" times on a path through the input case (the caller of Add blocks or a second send blocks the run goroutine)")
			}
		}
		if !seenInsert {
			c.Bail("no path through the input case inserts into the duty set")
		}
		agg.flush()
	})

	// removals from the duty set, shared by N3 and N5
	type removal struct {
		it  c16Iter
		pos int
	}
	removals := func(agg *h1617Agg, what string) []removal {
		n := 0
		for _, fn := range actorFns {
			for _, in := range an.Instrs(fn, false) {
				if call, ok := in.(*ssa.Call); ok {
					if b, ok := call.Call.Value.(*ssa.Builtin); ok && (b.Name() == "delete" || b.Name() == "clear") && isDutyKeyedMap(call.Call.Args[0].Type()) {
						n++
						covered(agg, what, in)
					}
				}
			}
		}
		if n == 0 {
			c.Bail("no removal from the duty set found")
		}
		var out []removal
		for _, it := range iters {
			for i, e := range it.p.Evs {
				if e.Kind != "builtin" || (e.Name != "delete" && e.Name != "clear") || !actor[e.Fn] {
					continue
				}
				if call, ok := e.In.(*ssa.Call); ok && isDutyKeyedMap(call.Call.Args[0].Type()) {
					out = append(out, removal{it, i})
				}
			}
		}
		return out
	}

	c.Rule("N3", 1, func() {
		needGetCurr()
		explore()
		agg := newAgg(c)
		for _, r := range removals(agg, "run delete(duties) only after delivered report") {
			evs := r.it.p.Evs
			e := evs[r.pos]
			where := caseName(r.it.sel.Chosen)
			if r.pos < r.it.selPos {
				where = "before the select"
			}
			if e.Name == "clear" {
				agg.bad("run delete(duties) without report ("+where+")", posOf(e.In), "the whole duty set is cleared without the expiries having been sent on the expiry channel")
				continue
			}
			key := e.Args[1]
			attempted, delivered := false, false
			for i := 0; i < r.pos; i++ {
				x := evs[i]
				switch x.Kind {
				case "send":
					if isDeadlineChan(x.Args[0]) && an.SymEq(x.Args[1], key) {
						attempted, delivered = true, true
					}
				case "select":
					for j, st := range x.States {
						if st.Dir == types.SendOnly && isDeadlineChan(st.Chan) && an.SymEq(st.Send, key) {
							attempted = true
							if x.Chosen == j {
								delivered = true
							}
						}
					}
				}
			}
			switch {
			case !attempted:
				agg.bad("run delete(duties) without report ("+where+")", posOf(e.In), "a duty is removed from the set without its expiry having been sent on the expiry channel")
			default:
				agg.check("run delete(duties) only after delivered report", posOf(e.In), delivered,
					"the expired duty is deleted on a path on which its report was not delivered (select falls through without sending)")
			}
		}
		agg.flush()
	})

	c.Rule("N5", 1, func() {
		needGetCurr()
		// after an expired duty is removed from the set, the timer state (current duty, deadline, timer) is
		// recomputed on every path back to the event loop: otherwise the stale, past deadline stays armed and no
		// later registration can re-arm it (N2 only re-arms for a deadline earlier than the current one)
		explore()
		agg := newAgg(c)
		for _, r := range removals(agg, "run delete(duties)→recompute timer state") {
			evs := r.it.p.Evs
			e := evs[r.pos]
			if !iterEnd(r.it.p) {
				agg.ok("run delete(duties)→recompute timer state", posOf(e.In))
				continue
			}
			g, done := -1, false
			for i := r.pos + 1; i < len(evs); i++ {
				x := evs[i]
				if x.Kind == "call" && x.Callee == getCurr && g < 0 {
					g = i
				}
				if g >= 0 && x.Kind == "call" && isInvokeOf(valueOf(x.In), clockT, "NewTimer") {
					done = true
				}
			}
			if !done && unresolvedLocalCall(evs, r.pos) {
				agg.unsure("run delete(duties)→recompute timer state", posOf(e.In), "a call through an unresolved function value follows the removal")
				continue
			}
			agg.check("run delete(duties)→recompute timer state", posOf(e.In), done,
				"after removing the expired duty the next duty/deadline/timer are not recomputed before the next event: the stale deadline stays current and later registrations never arm a timer")
		}
		agg.flush()
	})

	c.Rule("N6", 1, func() {
		// registering a pending duty again has no further effect: the received duty is stored under a key computed
		// from the duty, or positionally only behind a test of the duty's identity (see c16n4_idem.go)
		explore()
		agg := newAgg(c)
		if c16Idempotent(agg, iters, evSel, inIdx, actor) == 0 {
			c.Bail("no path through the input case stores the registered duty in a collection")
		}
		agg.flush()
	})

	c.Rule("N7", 1, func() {
		// every answer of Add comes from the run goroutine (see c16n5_add.go)
		c16AddAnswers(c, pkgFuncs, actorFns, actor)
	})

	c.Rule("N8", 1, func() {
		// never early: the timer is armed with exactly (deadline - now), or the timer case re-checks the deadline
		// against the clock before reporting (see c16n5_timer.go)
		needGetCurr()
		explore()
		if tmIdx < 0 {
			c.Bail("run: the event select has no case receiving from the timer's channel")
		}
		agg := newAgg(c)
		c16TimerNeverEarly(c, agg, pkgFuncs, actor, iters, tmIdx, isDeadlineChan, func(s *an.Sym) bool {
			ok, _ := fromGetCurr(s, 1)
			return ok
		})
		agg.flush()
	})

	c.Rule("N4", 3, func() {
		needGetCurr()
		// getCurrDuty, path by path (up to three iterations of its loop): in every iteration that considers a duty
		// the candidate's deadline is compared with the current minimum; the current minimum before an iteration is
		// the operand of that comparison, the minimum after the last one is the result. Each step must follow the
		// decided comparison, and the duty returned must be the one whose deadline is returned.
		fn := getCurr
		tr := &an.Tracer{Root: fn, MaxVisits: 4}
		r4 := tr.Run()
		h1617Dump("C16 getCurrDuty", r4)
		if r4.Truncated || len(r4.Paths) == 0 {
			c.Bail("getCurrDuty: path enumeration failed")
		}
		agg := newAgg(c)
		together, minimum, exempt := "getCurrDuty updates duty and deadline together", "getCurrDuty selects the earliest deadline", "getCurrDuty ignores never-expiring duties"
		iterations, unreadable := 0, false
		type step struct {
			cand, cdl *an.Sym // candidate duty and its deadline
			cur       *an.Sym // current minimum before the step (other operand of the comparison)
			strict    bool    // fact is (cand earlier than cur); otherwise (cur earlier than cand)
			truth     bool
			okKnown   bool // deadlineFunc's second result was decided true before the comparison
		}
		for _, p := range r4.Paths {
			if p.End != "return" {
				continue
			}
			resDuty, resDl := n4Results(fn, p)
			if resDuty == nil || resDl == nil {
				agg.unsure(together, fn.Pos(), "cannot read the results of getCurrDuty on a path")
				unreadable = true
				continue
			}
			facts := lessFacts(p)
			evs := p.Evs
			var steps []step
			var stepPos []int
			undecided := false
			isDF := func(x an.Ev) bool {
				call, ok := x.In.(*ssa.Call)
				return ok && x.Kind == "call" && !call.Call.IsInvoke() && call.Call.StaticCallee() == nil &&
					an.TypeName(call.Call.Value.Type()) == "core.DeadlineFunc" && len(x.Args) == 1
			}
			for i, e := range evs {
				if e.Kind != "next" {
					continue
				}
				okSym := &an.Sym{Kind: an.KExtract, Args: []*an.Sym{e.Res}, Index: 0}
				if t, known := boolFact(p, okSym, len(evs)); !known || !t {
					continue // loop exit
				}
				iterations++
				// the candidate's deadline and the comparison with the current minimum may come later on the path than
				// the iteration that took the duty from the set (collect first, select afterwards)
				cand := &an.Sym{Kind: an.KExtract, Args: []*an.Sym{e.Res}, Index: 1}
				var dres *an.Sym
				dpos := -1
				for j := i + 1; j < len(evs); j++ {
					if x := evs[j]; isDF(x) && an.SymEq(x.Args[0], cand) {
						dres, dpos = x.Res, j
						break
					}
				}
				if dres == nil {
					agg.unsure(minimum, fn.Pos(), "the deadline of a candidate duty is not computed with deadlineFunc on the path")
					undecided = true
					continue
				}
				cdl := &an.Sym{Kind: an.KExtract, Args: []*an.Sym{dres}, Index: 0}
				cok := &an.Sym{Kind: an.KExtract, Args: []*an.Sym{dres}, Index: 1}
				if t, known := boolFact(p, cok, len(evs)); known && !t {
					continue // never-expiring duty skipped
				}
				var cmp *lessFact
				for j := range facts {
					f := &facts[j]
					if f.pos > dpos && (an.SymEq(f.x, cdl) || an.SymEq(f.y, cdl)) && cmp == nil {
						cmp = f
					}
				}
				if cmp == nil {
					agg.unsure(minimum, fn.Pos(), "no time comparison of a candidate's deadline with the current minimum found on the path")
					undecided = true
					continue
				}
				st := step{cand: cand, cdl: cdl, truth: cmp.truth}
				if an.SymEq(cmp.x, cdl) {
					st.strict, st.cur = true, cmp.y
				} else {
					st.cur = cmp.x
				}
				t, known := boolFact(p, cok, cmp.pos+1)
				st.okKnown = known && t
				// steps in the order of their comparisons
				at := len(steps)
				for at > 0 && stepPos[at-1] > cmp.pos {
					at--
				}
				steps = append(steps[:at], append([]step{st}, steps[at:]...)...)
				stepPos = append(stepPos[:at], append([]int{cmp.pos}, stepPos[at:]...)...)
			}
			if undecided {
				continue
			}
			// replay: obs[k] is the minimum before step k, obs[len] the result
			var selected *an.Sym // duty of the last step that replaced the minimum
			bad := ""
			for k, st := range steps {
				next := resDl
				if k+1 < len(steps) {
					next = steps[k+1].cur
				}
				took := an.SymEq(next, st.cdl) && !an.SymEq(next, st.cur)
				kept := an.SymEq(next, st.cur)
				switch {
				case !took && !kept:
					bad = "after an iteration the current minimum is neither the previous minimum nor the candidate's deadline"
				case st.strict && st.truth && !took:
					bad = "a candidate whose deadline is earlier than the current minimum is not selected"
				case st.strict && !st.truth && took:
					bad = "a candidate whose deadline is not earlier than the current minimum is selected"
				case !st.strict && st.truth && took:
					bad = "a candidate whose deadline is later than the current minimum is selected"
				}
				if took {
					selected = st.cand
					agg.check(exempt, fn.Pos(), st.okKnown, "a duty that never expires (deadlineFunc's second result false) can be selected: its zero deadline is earlier than every real one and no timer would fire for the others")
				}
			}
			agg.check(minimum, fn.Pos(), bad == "", "the duty chosen for the timer is not the one with the minimum deadline: "+bad)
			if selected != nil {
				agg.check(together, fn.Pos(), an.SymEq(resDuty, selected), "the selected duty and the selected deadline are not updated on the same edges (they can refer to different duties)")
			} else {
				for _, st := range steps {
					if an.SymEq(resDuty, st.cand) {
						agg.bad(together, fn.Pos(), "a duty is returned whose deadline was not selected (duty and deadline can refer to different duties)")
					}
				}
			}
		}
		if iterations == 0 && !unreadable {
			c.Bail("getCurrDuty: no loop over the duty set found")
		}
		agg.ok(together, fn.Pos())
		agg.ok(minimum, fn.Pos())
		agg.ok(exempt, fn.Pos())
		agg.flush()
	})
}

// c16VarCell resolves the address of a local variable to its cell: the Alloc itself, or for a captured variable
// (free variable of a function literal, possibly nested) the Alloc it is bound to.
func c16VarCell(addr *an.Sym) *ssa.Alloc {
	v := addr.V
	for i := 0; i < 4; i++ {
		switch x := v.(type) {
		case *ssa.Alloc:
			return x
		case *ssa.FreeVar:
			fn := x.Parent()
			if fn.Parent() == nil {
				return nil
			}
			var bound ssa.Value
			for j, fv := range fn.FreeVars {
				if fv != x {
					continue
				}
				for _, in := range an.Instrs(fn.Parent(), false) {
					if mc, ok := in.(*ssa.MakeClosure); ok && mc.Fn == ssa.Value(fn) && j < len(mc.Bindings) {
						if bound != nil && bound != mc.Bindings[j] {
							return nil
						}
						bound = mc.Bindings[j]
					}
				}
			}
			if bound == nil {
				return nil
			}
			v = bound
		default:
			return nil
		}
	}
	return nil
}

// n4Results returns the duty and the deadline a path of getCurrDuty returns: the two results, or the fields of
// the matching types if the function returns one struct.
func n4Results(fn *ssa.Function, p *an.Path) (duty, dl *an.Sym) {
	switch len(p.Results) {
	case 2:
		return p.Results[0], p.Results[1]
	case 1:
		r := p.Results[0]
		st, ok := fn.Signature.Results().At(0).Type().Underlying().(*types.Struct)
		if !ok || r == nil || r.Kind != an.KStruct {
			return nil, nil
		}
		for i := 0; i < st.NumFields(); i++ {
			switch an.TypeName(st.Field(i).Type()) {
			case "core.Duty":
				duty = r.Fields[i]
			case "time.Time":
				dl = r.Fields[i]
			}
		}
	}
	return duty, dl
}

// valueOf returns the instruction as a value (nil if it has none).
func valueOf(in ssa.Instruction) ssa.Value {
	v, _ := in.(ssa.Value)
	return v
}

// c16Fresh decides whether v is an object allocated here (or returned fresh by an in-package constructor).
func c16Fresh(v ssa.Value, d int) (fresh, decided bool) {
	v = an.Resolve(v)
	switch x := v.(type) {
	case *ssa.Alloc:
		return true, true
	case *ssa.Parameter, *ssa.Global:
		return false, true
	case *ssa.UnOp:
		if x.Op != token.MUL {
			return false, false
		}
		switch a := x.X.(type) {
		case *ssa.FreeVar:
			// captured variable: the variable of the enclosing function it is bound to
			fn := a.Parent()
			if fn.Parent() == nil || d > 3 {
				return false, false
			}
			for i, fv := range fn.FreeVars {
				if fv != a {
					continue
				}
				for _, in := range an.Instrs(fn.Parent(), false) {
					if mc, ok := in.(*ssa.MakeClosure); ok && mc.Fn == ssa.Value(fn) && i < len(mc.Bindings) {
						if al, ok := mc.Bindings[i].(*ssa.Alloc); ok {
							if stores := an.AllStores(al); len(stores) == 1 && !an.AddrEscapes(al) {
								return c16Fresh(stores[0].Val, d+1)
							}
						}
					}
				}
			}
			return false, false
		case *ssa.FieldAddr, *ssa.IndexAddr, *ssa.Global:
			return false, true // loaded from shared state
		}
		return false, false
	case *ssa.Call:
		f := x.Call.StaticCallee()
		if f == nil || len(f.Blocks) == 0 || d > 3 {
			return false, false
		}
		rets := an.Returns(f)
		if len(rets) == 0 {
			return false, false
		}
		for _, r := range rets {
			if len(r.Results) == 0 {
				return false, false
			}
			fr, dec := c16Fresh(returnValues(r)[0], d+1)
			if !dec || !fr {
				return fr, dec
			}
		}
		return true, true
	}
	return false, false
}
