// Package load loads the charon repository (type-checked syntax + SSA) for the checker.
package load

import (
	"fmt"
	"go/ast"
	"go/token"
	"go/types"
	"os"
	"sort"
	"strings"
	"time"

	"golang.org/x/tools/go/packages"
	"golang.org/x/tools/go/ssa"
	"golang.org/x/tools/go/ssa/ssautil"
)

const Mod = "github.com/obolnetwork/charon"

// Program is the loaded repository.
type Program struct {
	Dir      string
	Fset     *token.FileSet
	Pkgs     []*packages.Package          // root packages (repo packages), sorted by path
	ByPath   map[string]*packages.Package // import path -> package
	SSA      *ssa.Program
	SSAPkgs  map[string]*ssa.Package
	LoadTime time.Duration
	NumFuncs int
	WithTest bool
}

// Options controls loading.
type Options struct {
	Dir      string            // repository root
	Patterns []string          // default ./...
	Tests    bool              // also load _test.go variants (for who-may-call rules)
	Overlay  map[string][]byte // in-memory replacements
}

// Load loads and type-checks. Any type error in a repo package is returned as an error.
func Load(opt Options) (*Program, error) {
	start := time.Now()
	if opt.Dir == "" {
		opt.Dir = "/repo"
	}
	if len(opt.Patterns) == 0 {
		opt.Patterns = []string{"./..."}
	}
	fset := token.NewFileSet()
	cfg := &packages.Config{
		Mode: packages.NeedName | packages.NeedFiles | packages.NeedCompiledGoFiles | packages.NeedImports |
			packages.NeedTypes | packages.NeedTypesSizes | packages.NeedSyntax | packages.NeedTypesInfo | packages.NeedModule,
		Dir:     opt.Dir,
		Fset:    fset,
		Tests:   opt.Tests,
		Overlay: opt.Overlay,
		Env:     append(os.Environ(), "GOWORK=off"),
	}
	pkgs, err := packages.Load(cfg, opt.Patterns...)
	if err != nil {
		return nil, fmt.Errorf("packages.Load: %w", err)
	}
	if len(pkgs) == 0 {
		return nil, fmt.Errorf("no packages loaded from %s", opt.Dir)
	}
	var errs []string
	for _, p := range pkgs {
		for _, e := range p.Errors {
			errs = append(errs, e.Error())
		}
	}
	if len(errs) > 0 {
		sort.Strings(errs)
		if len(errs) > 10 {
			errs = errs[:10]
		}
		return nil, fmt.Errorf("load/type errors: %s", strings.Join(errs, "; "))
	}
	sort.Slice(pkgs, func(i, j int) bool { return pkgs[i].ID < pkgs[j].ID })
	prog, ssapkgs := ssautil.Packages(pkgs, ssa.InstantiateGenerics|ssa.SanityCheckFunctions&0)
	prog.Build()
	p := &Program{Dir: opt.Dir, Fset: fset, Pkgs: pkgs, ByPath: map[string]*packages.Package{}, SSA: prog,
		SSAPkgs: map[string]*ssa.Package{}, WithTest: opt.Tests}
	for i, pk := range pkgs {
		// With Tests, prefer the non-test variant under the plain path; test variants keyed by ID.
		if _, ok := p.ByPath[pk.PkgPath]; !ok || pk.ID == pk.PkgPath {
			p.ByPath[pk.PkgPath] = pk
			if ssapkgs[i] != nil {
				p.SSAPkgs[pk.PkgPath] = ssapkgs[i]
			}
		}
	}
	for fn := range ssautil.AllFunctions(prog) {
		if fn.Blocks != nil {
			p.NumFuncs++
		}
	}
	p.LoadTime = time.Since(start)
	return p, nil
}

// Pkg returns the repo package with the given path relative to the module ("core/dutydb").
func (p *Program) Pkg(rel string) *packages.Package {
	if rel == "" || rel == "." {
		return p.ByPath[Mod]
	}
	return p.ByPath[Mod+"/"+rel]
}

// SSAPkg returns the SSA package for a module-relative path.
func (p *Program) SSAPkg(rel string) *ssa.Package {
	if rel == "" || rel == "." {
		return p.SSAPkgs[Mod]
	}
	return p.SSAPkgs[Mod+"/"+rel]
}

// Pos renders a position relative to the repo dir.
func (p *Program) Pos(pos token.Pos) string {
	if !pos.IsValid() {
		return "-"
	}
	ps := p.Fset.Position(pos)
	f := strings.TrimPrefix(ps.Filename, p.Dir+"/")
	return fmt.Sprintf("%s:%d", f, ps.Line)
}

// FileOf returns the *ast.File containing pos in pkg.
func FileOf(pkg *packages.Package, pos token.Pos) *ast.File {
	for _, f := range pkg.Syntax {
		if f.FileStart <= pos && pos <= f.FileEnd {
			return f
		}
	}
	return nil
}

var _ = types.Universe
