// Package rt is the rule runtime: obligation bookkeeping, anchor resolution with
// UNDECIDED semantics, evidence and known-finding handling.
package rt

import (
	"encoding/json"
	"fmt"
	"go/token"
	"go/types"
	"os"
	"runtime/debug"
	"sort"
	"strings"

	"golang.org/x/tools/go/packages"
	"golang.org/x/tools/go/ssa"

	"charonverif/internal/an"
	"charonverif/internal/load"
)

// Status of one obligation.
const (
	OK        = "ok"
	Violation = "violation"
	Undecided = "undecided"
)

// Finding is one decided (or undecidable) rule instance.
type Finding struct {
	Rule      string `json:"rule"`
	Construct string `json:"construct"` // stable key: resolved entity names, never a line number
	Pos       string `json:"pos"`
	Status    string `json:"status"`
	Detail    string `json:"detail,omitempty"`
	Known     string `json:"known_finding,omitempty"`
}

// Ctx is handed to every rule.
type Ctx struct {
	P        *load.Program
	Prop     string
	Tier     string
	Findings []Finding
	mins     map[string]int
	curRule  string
	Notes    []string
}

type undecided struct{ msg string }

// Rule runs body as rule id; an unresolved anchor or a panic inside makes the rule UNDECIDED.
func (c *Ctx) Rule(id string, min int, body func()) {
	c.curRule = id
	if c.mins == nil {
		c.mins = map[string]int{}
	}
	c.mins[id] = min
	defer func() {
		if r := recover(); r != nil {
			if u, ok := r.(undecided); ok {
				c.add(Finding{Rule: id, Construct: "anchor", Status: Undecided, Detail: u.msg})
				return
			}
			st := string(debug.Stack())
			if len(st) > 1500 {
				st = st[:1500]
			}
			c.add(Finding{Rule: id, Construct: "checker-panic", Status: Undecided, Detail: fmt.Sprint(r) + "\n" + st})
		}
		c.curRule = ""
	}()
	body()
}

func (c *Ctx) add(f Finding) { c.Findings = append(c.Findings, f) }

// Bail aborts the current rule as undecided.
func (c *Ctx) Bail(format string, a ...any) { panic(undecided{fmt.Sprintf(format, a...)}) }

// Check records an obligation for the current rule.
func (c *Ctx) Check(construct string, pos token.Pos, ok bool, detail string) bool {
	st := OK
	if !ok {
		st = Violation
	}
	if ok {
		detail = ""
	}
	c.add(Finding{Rule: c.curRule, Construct: construct, Pos: c.P.Pos(pos), Status: st, Detail: detail})
	return ok
}

// Good / Bad are shorthands.
func (c *Ctx) Good(construct string, pos token.Pos, detail string) {
	c.add(Finding{Rule: c.curRule, Construct: construct, Pos: c.P.Pos(pos), Status: OK, Detail: detail})
}
func (c *Ctx) Bad(construct string, pos token.Pos, detail string) {
	c.Check(construct, pos, false, detail)
}

// Unsure records an undecidable instance (counts as failure of the checker, not a violation).
func (c *Ctx) Unsure(construct string, pos token.Pos, detail string) {
	c.add(Finding{Rule: c.curRule, Construct: construct, Pos: c.P.Pos(pos), Status: Undecided, Detail: detail})
}

// Note adds free text to the evidence.
func (c *Ctx) Note(format string, a ...any) { c.Notes = append(c.Notes, fmt.Sprintf(format, a...)) }

// ---------------------------------------------------------------------------------------------
// Anchor resolution

// SSAPkg resolves a module-relative package or bails.
func (c *Ctx) SSAPkg(rel string) *ssa.Package {
	p := c.P.SSAPkg(rel)
	if p == nil {
		c.Bail("package %s not found", rel)
	}
	return p
}

// Pkg resolves the go/packages package.
func (c *Ctx) Pkg(rel string) *packages.Package {
	p := c.P.Pkg(rel)
	if p == nil {
		c.Bail("package %s not found", rel)
	}
	return p
}

// Fn resolves "pkg/rel.Func" or "pkg/rel.Type.Method" to its SSA function or bails.
func (c *Ctx) Fn(name string) *ssa.Function {
	f := c.FnOpt(name)
	if f == nil {
		c.Bail("function %s not found", name)
	}
	return f
}

// FnOpt is Fn without bailing.
func (c *Ctx) FnOpt(name string) *ssa.Function {
	dot := strings.LastIndex(name, "/")
	rest := name[dot+1:]
	parts := strings.Split(rest, ".")
	pkgRel := name[:dot+1] + parts[0]
	sp := c.P.SSAPkg(pkgRel)
	if sp == nil {
		return nil
	}
	switch len(parts) {
	case 2:
		anon := strings.Split(parts[1], "$")
		f := sp.Func(anon[0])
		return descend(f, anon[1:])
	case 3:
		anon := strings.Split(parts[2], "$")
		obj := sp.Pkg.Scope().Lookup(parts[1])
		if obj == nil {
			return nil
		}
		for _, t := range []types.Type{obj.Type(), types.NewPointer(obj.Type())} {
			ms := c.P.SSA.MethodSets.MethodSet(t)
			for i := 0; i < ms.Len(); i++ {
				if ms.At(i).Obj().Name() == anon[0] {
					if fn, ok := ms.At(i).Obj().(*types.Func); ok {
						if sig := fn.Type().(*types.Signature); sig.Recv() != nil && an.TypeName(sig.Recv().Type()) == an.TypeName(obj.Type()) {
							return descend(c.P.SSA.FuncValue(fn), anon[1:])
						}
					}
				}
			}
		}
	}
	return nil
}

func descend(f *ssa.Function, idx []string) *ssa.Function {
	for _, s := range idx {
		if f == nil {
			return nil
		}
		var n int
		fmt.Sscan(s, &n)
		if n < 1 || n > len(f.AnonFuncs) {
			return nil
		}
		f = f.AnonFuncs[n-1]
	}
	return f
}

// OneCall returns the single call in fn matching m, or bails.
func (c *Ctx) OneCall(fn *ssa.Function, m an.Matcher, what string, withAnon bool) ssa.CallInstruction {
	cs := an.Calls(fn, m, withAnon)
	if len(cs) != 1 {
		c.Bail("expected exactly one call to %s in %s, found %d", what, an.FuncName(fn), len(cs))
	}
	return cs[0]
}

// SomeCalls returns the calls in fn matching m (at least one) or bails.
func (c *Ctx) SomeCalls(fn *ssa.Function, m an.Matcher, what string, withAnon bool) []ssa.CallInstruction {
	cs := an.Calls(fn, m, withAnon)
	if len(cs) == 0 {
		c.Bail("no call to %s in %s", what, an.FuncName(fn))
	}
	return cs
}

// ---------------------------------------------------------------------------------------------
// Known findings

// Known is one entry of known_findings.json.
type Known struct {
	Property  string `json:"property"`
	Rule      string `json:"rule"`
	Construct string `json:"construct"`
	What      string `json:"what"`
}

// KnownFile is the committed file.
type KnownFile struct {
	Known []Known  `json:"known_findings"`
	Fixed []string `json:"fixed"`
}

// LoadKnown reads the known-findings file (missing file = empty).
func LoadKnown(path string) (KnownFile, error) {
	var kf KnownFile
	b, err := os.ReadFile(path)
	if err != nil {
		if os.IsNotExist(err) {
			return kf, nil
		}
		return kf, err
	}
	return kf, json.Unmarshal(b, &kf)
}

// Result summarises a run of one property.
type Result struct {
	Prop       string
	Findings   []Finding
	Violations []Finding // unlisted
	KnownHits  []Finding
	Undecided  []Finding
	Rules      map[string][2]int // rule -> [instances, holding]
	Notes      []string
}

// Finish applies minimum-instance guards and known findings.
func (c *Ctx) Finish(kf KnownFile) Result {
	r := Result{Prop: c.Prop, Rules: map[string][2]int{}, Notes: c.Notes}
	count := map[string]int{}
	for _, f := range c.Findings {
		if f.Status != Undecided {
			count[f.Rule]++
		}
	}
	var rules []string
	for id := range c.mins {
		rules = append(rules, id)
	}
	sort.Strings(rules)
	for _, id := range rules {
		// Vacuity guard. The confirmed count is the number of sites read on the pinned tree; a behaviour-preserving
		// edit may legitimately merge a few sites (two calls folded into one helper), so the guard trips only when
		// fewer than half of the confirmed sites are still seen — a smaller drop is recorded as a note in the evidence.
		if count[id] < c.mins[id] && count[id] >= (c.mins[id]+1)/2 {
			c.Notes = append(c.Notes, fmt.Sprintf("rule %s matched %d instances (confirmed on the pinned tree: %d)", id, count[id], c.mins[id]))
			r.Notes = c.Notes
		}
		if count[id] < (c.mins[id]+1)/2 {
			hasU := false
			for _, f := range c.Findings {
				if f.Rule == id && f.Status == Undecided {
					hasU = true
				}
			}
			if !hasU {
				c.Findings = append(c.Findings, Finding{Rule: id, Construct: "instance-count", Status: Undecided,
					Detail: fmt.Sprintf("rule matched %d instances, confirmed minimum is %d (vacuity guard)", count[id], c.mins[id])})
			}
		}
	}
	for i := range c.Findings {
		f := &c.Findings[i]
		x := r.Rules[f.Rule]
		switch f.Status {
		case OK:
			x[0]++
			x[1]++
		case Violation:
			x[0]++
			for _, k := range kf.Known {
				if k.Property == c.Prop && k.Rule == f.Rule && k.Construct == f.Construct {
					f.Known = k.What
				}
			}
			if f.Known != "" {
				r.KnownHits = append(r.KnownHits, *f)
			} else {
				r.Violations = append(r.Violations, *f)
			}
		case Undecided:
			r.Undecided = append(r.Undecided, *f)
		}
		r.Rules[f.Rule] = x
	}
	r.Findings = c.Findings
	return r
}

// Import merges the findings of the given rules of another property's run (same program) into c,
// renaming the rule ids to "<prefix>.<id>" so that they count as obligations of this property too.
func (c *Ctx) Import(sub *Ctx, prefix string, rules ...string) {
	want := map[string]bool{}
	for _, r := range rules {
		want[r] = true
	}
	if c.mins == nil {
		c.mins = map[string]int{}
	}
	for id, n := range sub.mins {
		if want[id] {
			c.mins[prefix+"."+id] = n
		}
	}
	for _, f := range sub.Findings {
		if want[f.Rule] {
			f.Rule = prefix + "." + f.Rule
			c.Findings = append(c.Findings, f)
		}
	}
}
