// charonlint decides the structural clauses of the charon properties C01..C20 from /repo's source.
package main

import (
	"encoding/json"
	"flag"
	"fmt"
	"os"
	"os/exec"
	"path/filepath"
	"sort"
	"strconv"
	"strings"
	"sync"
	"time"

	"charonverif/internal/load"
	"charonverif/internal/rt"
	"charonverif/internal/rules"
)

var (
	flagProp   = flag.String("prop", "", "property id (C01..C20) or 'all'")
	flagTier   = flag.String("tier", "quick", "quick|thorough")
	flagRepo   = flag.String("repo", "/repo", "repository root")
	flagOut    = flag.String("out", "/verif/evidence", "evidence directory")
	flagKnown  = flag.String("known", "/verif/known_findings.json", "known findings file")
	flagPatch  = flag.String("patch", "", "unified diff to apply as an in-memory overlay (testing the checker)")
	flagDump   = flag.Bool("dump", false, "print every finding")
	flagNoEv   = flag.Bool("noevidence", false, "do not write evidence files")
	flagMutant = flag.String("mutant", "", "run the rules on one registered mutant (id) instead of the tree")
	flagStrict = flag.Bool("strict", false, "fail (exit 2) when a registered mutant survives or is stale")
	flagFind   = flag.String("findings", "", "(internal) also write the result of this run as JSON to the given file; used by the thorough tier, which analyses every variant in a child process")
	flagDesc   = flag.Bool("describe", false, "print the registered properties (id, decides, not decided, mutants) as JSON and exit")
)

func main() {
	flag.Parse()
	if *flagDesc {
		out := map[string]any{}
		for _, id := range rules.IDs() {
			p := rules.Get(id)
			out[id] = map[string]any{"decides": p.Decides, "not_decided": p.NotDecided, "mutants": len(p.Mutants), "assumptions": p.Assumptions}
		}
		b, _ := json.MarshalIndent(out, "", " ")
		fmt.Println(string(b))
		return
	}
	start := time.Now()
	seed := 0
	if s := os.Getenv("VERIF_SEED"); s != "" {
		seed, _ = strconv.Atoi(s)
	}
	if t := os.Getenv("VERIF_TIER"); t != "" && *flagTier == "" {
		*flagTier = t
	}
	ids := []string{*flagProp}
	if *flagProp == "all" {
		ids = rules.IDs()
	}
	for _, id := range ids {
		if rules.Get(id) == nil {
			fmt.Printf("UNDECIDED property=%s no checker registered\n", id)
			os.Exit(2)
		}
	}
	kf, err := rt.LoadKnown(*flagKnown)
	if err != nil {
		fmt.Printf("UNDECIDED cannot read %s: %v\n", *flagKnown, err)
		os.Exit(2)
	}
	overlay := map[string][]byte{}
	if *flagPatch != "" {
		overlay, err = patchOverlay(*flagRepo, *flagPatch)
		if err != nil {
			fmt.Printf("UNDECIDED cannot apply patch: %v\n", err)
			os.Exit(2)
		}
	}
	if *flagMutant != "" {
		var m *rules.Mutant
		for _, id := range ids {
			for i := range rules.Get(id).Mutants {
				if rules.Get(id).Mutants[i].ID == *flagMutant {
					m = &rules.Get(id).Mutants[i]
				}
			}
		}
		if m == nil {
			fmt.Println("UNDECIDED unknown mutant", *flagMutant)
			os.Exit(2)
		}
		ov, stale, err := mutantOverlay(*flagRepo, *m)
		if err != nil || stale {
			fmt.Println("UNDECIDED mutant stale or unreadable", err)
			os.Exit(2)
		}
		overlay = ov
	}
	prog, err := load.Load(load.Options{Dir: *flagRepo, Overlay: overlay})
	if err != nil {
		fmt.Printf("UNDECIDED property=%s load failed: %v\n", *flagProp, err)
		os.Exit(2)
	}
	if len(prog.Pkgs) < 60 {
		fmt.Printf("UNDECIDED property=%s only %d packages loaded\n", *flagProp, len(prog.Pkgs))
		os.Exit(2)
	}
	exit := 0
	for _, id := range ids {
		p := rules.Get(id)
		res := runProp(prog, p, *flagTier, kf)
		if *flagFind != "" {
			if b, err := json.Marshal(res); err == nil {
				_ = os.WriteFile(*flagFind, b, 0o644)
			}
		}
		var mres []mutantResult
		if *flagTier == "thorough" && *flagMutant == "" && *flagPatch == "" {
			mres = runMutants(p, res, kf)
		}
		if *flagTier == "thorough" && *flagMutant == "" && *flagPatch == "" {
			mres = append(mres, runSeeded(p, res, kf)...)
			mres = append(mres, runRefactors(p, res, kf)...)
		}
		code := report(prog, p, res, mres, seed, time.Since(start))
		if code > exit {
			exit = code
		}
	}
	os.Exit(exit)
}

func runProp(prog *load.Program, p *rules.Prop, tier string, kf rt.KnownFile) rt.Result {
	c := &rt.Ctx{P: prog, Prop: p.ID, Tier: tier}
	p.Run(c)
	if tier == "thorough" && p.Thorough != nil {
		p.Thorough(c)
	}
	return c.Finish(kf)
}

type mutantResult struct {
	ID     string `json:"id"`
	Expect string `json:"expect"`
	Status string `json:"status"` // killed | survived | stale | broken
	By     string `json:"reported_as,omitempty"`
	Extra  int    `json:"other_new_violations,omitempty"`
	Detail string `json:"detail,omitempty"`
}

func key(f rt.Finding) string { return f.Rule + "|" + f.Construct }

func runMutants(p *rules.Prop, base rt.Result, kf rt.KnownFile) []mutantResult {
	baseBad := map[string]bool{}
	for _, f := range base.Findings {
		if f.Status == rt.Violation {
			baseBad[key(f)] = true
		}
	}
	out := make([]mutantResult, len(p.Mutants))
	sem := make(chan struct{}, 6)
	var wg sync.WaitGroup
	for i, m := range p.Mutants {
		wg.Add(1)
		go func() {
			defer wg.Done()
			sem <- struct{}{}
			defer func() { <-sem }()
			r := mutantResult{ID: m.ID, Expect: m.Expect}
			defer func() { out[i] = r }()
			ov, stale, err := mutantOverlay(*flagRepo, m)
			if err != nil {
				r.Status, r.Detail = "broken", err.Error()
				return
			}
			if stale {
				r.Status, r.Detail = "stale", "locator text not found (or not unique) in "+m.File
				return
			}
			_ = ov
			res, outp, err := childResult(p, "-mutant", m.ID)
			if err != nil {
				r.Status, r.Detail = "broken", "variant does not type-check or the child run failed: "+firstLine(outp, "UNDECIDED")
				return
			}
			rule, sub, _ := strings.Cut(m.Expect, "|")
			for _, f := range res.Findings {
				if f.Status != rt.Violation || baseBad[key(f)] {
					continue
				}
				if f.Rule == rule && strings.Contains(f.Construct, sub) {
					if r.By == "" {
						r.By = key(f) + " @ " + f.Pos
					}
				} else {
					r.Extra++
				}
			}
			if r.By != "" {
				r.Status = "killed"
			} else {
				r.Status = "survived"
				for _, f := range res.Undecided {
					r.Detail += "undecided:" + key(f) + " " + f.Detail + "; "
				}
			}
		}()
	}
	wg.Wait()
	return out
}

// runSeeded re-checks the independently produced breaking changes kept under /verif/seeded/<prop>-*/patch.diff
// (see DESIGN.md): each must be reported as a new violation of its property.
func runSeeded(p *rules.Prop, base rt.Result, kf rt.KnownFile) []mutantResult {
	dirs, _ := filepath.Glob(filepath.Join(filepath.Dir(*flagKnown), "seeded", p.ID+"-*", "patch.diff"))
	baseBad := map[string]bool{}
	for _, f := range base.Findings {
		if f.Status == rt.Violation {
			baseBad[key(f)] = true
		}
	}
	out := make([]mutantResult, len(dirs))
	forEach(len(dirs), 6, func(i int) {
		d := dirs[i]
		r := mutantResult{ID: "seeded/" + filepath.Base(filepath.Dir(d)), Expect: "any rule of " + p.ID}
		defer func() { out[i] = r }()
		if _, err := patchOverlay(*flagRepo, d); err != nil {
			r.Status, r.Detail = "stale", "patch does not apply to the current tree"
			return
		}
		res, outp, err := childResult(p, "-patch", d)
		if err != nil {
			r.Status, r.Detail = "broken", firstLine(outp, "UNDECIDED")
			return
		}
		for _, f := range res.Findings {
			if f.Status == rt.Violation && !baseBad[key(f)] && r.By == "" {
				r.By = key(f) + " @ " + f.Pos
			}
		}
		if r.By != "" {
			r.Status = "killed"
		} else {
			r.Status = "survived"
		}
	})
	return out
}

// runRefactors analyses the behaviour-preserving refactorings kept under /verif/refactors/<prop>/*.diff:
// none may produce a new violation (status "silent"; "undecided" is tolerated and reported; "alarm" is a
// false alarm of the checker).
func runRefactors(p *rules.Prop, base rt.Result, kf rt.KnownFile) []mutantResult {
	files, _ := filepath.Glob(filepath.Join(filepath.Dir(*flagKnown), "refactors", p.ID, "*.diff"))
	baseBad := map[string]bool{}
	for _, f := range base.Findings {
		if f.Status == rt.Violation {
			baseBad[key(f)] = true
		}
	}
	out := make([]mutantResult, len(files))
	forEach(len(files), 6, func(i int) {
		d := files[i]
		r := mutantResult{ID: "refactor/" + p.ID + "/" + filepath.Base(d), Expect: "no new violation"}
		defer func() { out[i] = r }()
		if _, err := patchOverlay(*flagRepo, d); err != nil {
			r.Status, r.Detail = "stale", "patch does not apply to the current tree"
			return
		}
		res, outp, err := childResult(p, "-patch", d)
		if err != nil {
			r.Status, r.Detail = "stale", "refactored tree does not type-check or the child run failed: "+firstLine(outp, "UNDECIDED")
			return
		}
		r.Status = "silent"
		if len(res.Undecided) > 0 {
			r.Status = "silent-undecided"
			r.Detail = key(res.Undecided[0])
		}
		for _, f := range res.Findings {
			if f.Status == rt.Violation && !baseBad[key(f)] {
				r.Status, r.By = "alarm", key(f)+" @ "+f.Pos
			}
		}
	})
	return out
}

// childResult analyses one variant (a registered mutant or a patch) in a child process and returns its result.
// Every variant is a fresh whole-repository load; rule files keep per-program memo tables, so analysing the
// variants in-process retained every loaded program (>50 GB on the property with the most variants).
func childResult(p *rules.Prop, extra ...string) (rt.Result, string, error) {
	f, err := os.CreateTemp("", "charonlint-res-*.json")
	if err != nil {
		return rt.Result{}, "", err
	}
	f.Close()
	defer os.Remove(f.Name())
	args := []string{"-prop", p.ID, "-tier", "quick", "-repo", *flagRepo, "-known", *flagKnown, "-noevidence", "-findings", f.Name()}
	args = append(args, extra...)
	cmd := exec.Command(os.Args[0], args...)
	out, runErr := cmd.CombinedOutput()
	b, rerr := os.ReadFile(f.Name())
	if rerr != nil || len(b) == 0 {
		return rt.Result{}, string(out), fmt.Errorf("no result from the child run (%v)", runErr)
	}
	var res rt.Result
	if err := json.Unmarshal(b, &res); err != nil {
		return rt.Result{}, string(out), err
	}
	return res, string(out), nil
}

func firstLine(s, sub string) string {
	for _, l := range strings.Split(s, "\n") {
		if strings.Contains(l, sub) {
			return l
		}
	}
	return strings.TrimSpace(s)
}

// forEach runs fn for i in [0,n) with at most k at a time.
func forEach(n, k int, fn func(i int)) {
	sem := make(chan struct{}, k)
	var wg sync.WaitGroup
	for i := 0; i < n; i++ {
		wg.Add(1)
		go func() {
			defer wg.Done()
			sem <- struct{}{}
			defer func() { <-sem }()
			fn(i)
		}()
	}
	wg.Wait()
}

func mutantOverlay(repo string, m rules.Mutant) (map[string][]byte, bool, error) {
	path := filepath.Join(repo, m.File)
	b, err := os.ReadFile(path)
	if err != nil {
		return nil, false, err
	}
	s := string(b)
	if strings.Count(s, m.Old) != 1 {
		return nil, true, nil
	}
	s = strings.Replace(s, m.Old, m.New, 1)
	for _, e := range m.More {
		if strings.Count(s, e[0]) != 1 {
			return nil, true, nil
		}
		s = strings.Replace(s, e[0], e[1], 1)
	}
	return map[string][]byte{path: []byte(s)}, false, nil
}

// patchOverlay applies a unified diff to copies of the touched files and returns them as overlay.
func patchOverlay(repo, patch string) (map[string][]byte, error) {
	tmp, err := os.MkdirTemp("", "charonlint-patch")
	if err != nil {
		return nil, err
	}
	defer os.RemoveAll(tmp)
	pb, err := os.ReadFile(patch)
	if err != nil {
		return nil, err
	}
	var files []string
	for _, l := range strings.Split(string(pb), "\n") {
		if strings.HasPrefix(l, "+++ ") {
			f := strings.TrimSpace(strings.TrimPrefix(l, "+++ "))
			if i := strings.IndexAny(f, "\t"); i >= 0 {
				f = f[:i]
			}
			f = strings.TrimPrefix(f, "b/")
			if f != "/dev/null" {
				files = append(files, f)
			}
		}
	}
	for _, f := range files {
		dst := filepath.Join(tmp, f)
		os.MkdirAll(filepath.Dir(dst), 0o755)
		if b, err := os.ReadFile(filepath.Join(repo, f)); err == nil {
			os.WriteFile(dst, b, 0o644)
		}
	}
	abs, _ := filepath.Abs(patch)
	cmd := exec.Command("patch", "-p1", "-s", "-i", abs)
	cmd.Dir = tmp
	if outp, err := cmd.CombinedOutput(); err != nil {
		return nil, fmt.Errorf("patch: %v: %s", err, outp)
	}
	ov := map[string][]byte{}
	for _, f := range files {
		b, err := os.ReadFile(filepath.Join(tmp, f))
		if err != nil {
			return nil, err
		}
		ov[filepath.Join(repo, f)] = b
	}
	return ov, nil
}

func report(prog *load.Program, p *rules.Prop, res rt.Result, mres []mutantResult, seed int, wall time.Duration) int {
	if *flagDump {
		for _, f := range res.Findings {
			fmt.Printf("  [%s] %s %s %s — %s\n", f.Status, f.Rule, f.Construct, f.Pos, f.Detail)
		}
	}
	var rulesList []string
	inst, hold := 0, 0
	for r, x := range res.Rules {
		rulesList = append(rulesList, r)
		inst += x[0]
		hold += x[1]
	}
	sort.Strings(rulesList)
	distinct := map[string]bool{}
	var samples []any
	perRule := map[string]any{}
	for _, f := range res.Findings {
		if f.Status != rt.Undecided {
			distinct[key(f)] = true
		}
	}
	seenRule := map[string]int{}
	for _, f := range res.Findings {
		if f.Status == rt.OK && seenRule[f.Rule] < 2 && len(samples) < 40 {
			seenRule[f.Rule]++
			samples = append(samples, f)
		}
	}
	for _, f := range append(append([]rt.Finding{}, res.Violations...), res.KnownHits...) {
		samples = append(samples, f)
	}
	for _, r := range rulesList {
		perRule[r] = map[string]int{"instances": res.Rules[r][0], "holding": res.Rules[r][1]}
	}
	killed, survived, stale, silent, alarms := 0, 0, 0, 0, 0
	for _, m := range mres {
		switch m.Status {
		case "killed":
			killed++
		case "stale":
			stale++
		case "silent", "silent-undecided":
			silent++
		case "alarm":
			alarms++
		default:
			survived++
		}
	}
	cov := map[string]any{
		"explanation": "Static analysis of /repo's current source (go/packages type-checked program + go/ssa, dominators, CFG reachability). " +
			"Decides: " + p.Decides + " Not decided (no rule exists for it, no runtime substitute): " + p.NotDecided,
		"obligations":         inst,
		"discharged":          hold,
		"evaluations":         len(res.Findings),
		"distinct_nontrivial": len(distinct),
		"rule":                "one evaluation = one rule instance (rule id + resolved construct) found in the source; distinct = distinct (rule, construct) keys that examined a real site",
		"samples":             samples,
		"rules":               perRule,
		"packages_loaded":     len(prog.Pkgs),
		"functions_with_body": prog.NumFuncs,
		"known_findings_hit":  len(res.KnownHits),
		"undecided":           len(res.Undecided),
		"checker_cmd":         "bin/charonlint -prop " + p.ID + " -tier " + *flagTier,
		"trusted_base":        []string{"go/types", "golang.org/x/tools/go/ssa v0.50.0", "rule tables in checker/internal/rules"},
		"notes":               res.Notes,
		"exhaustive":          true,
	}
	if mres != nil {
		cov["mutants"] = mres
		cov["mutants_killed"] = killed
		cov["mutants_survived"] = survived
		cov["mutants_stale"] = stale
		cov["refactorings_silent"] = silent
		cov["refactorings_false_alarm"] = alarms
	}
	ev := map[string]any{
		"property_id": p.ID,
		"tier":        *flagTier,
		"seed":        seed,
		"level":       "other",
		"coverage":    cov,
		"assumptions": append([]string{"the rule tables name the mechanisms that uphold the property (DESIGN.md §5)",
			"the Go type checker and SSA builder are faithful to the compiler"}, p.Assumptions...),
		"wall_s":     wall.Seconds(),
		"violations": len(res.Violations),
	}
	viol := filepath.Join(*flagOut, p.ID+".violations.json")
	if !*flagNoEv {
		os.MkdirAll(*flagOut, 0o755)
		b, _ := json.MarshalIndent(ev, "", " ")
		if err := os.WriteFile(filepath.Join(*flagOut, p.ID+".json"), b, 0o644); err != nil {
			fmt.Println("UNDECIDED cannot write evidence:", err)
			return 2
		}
		os.Remove(viol)
		if len(res.Violations) > 0 || len(res.Undecided) > 0 {
			vb, _ := json.MarshalIndent(map[string]any{"property": p.ID, "violations": res.Violations, "undecided": res.Undecided}, "", " ")
			os.WriteFile(viol, vb, 0o644)
		}
	}
	fmt.Printf("%s tier=%s packages=%d functions=%d rules=%d instances=%d holding=%d known=%d undecided=%d wall=%.1fs\n",
		p.ID, *flagTier, len(prog.Pkgs), prog.NumFuncs, len(rulesList), inst, hold, len(res.KnownHits), len(res.Undecided), wall.Seconds())
	for _, r := range rulesList {
		fmt.Printf("  rule %-6s instances=%d holding=%d\n", r, res.Rules[r][0], res.Rules[r][1])
	}
	if mres != nil {
		fmt.Printf("  mutants: %d killed, %d survived, %d stale; refactorings: %d silent, %d false alarms\n", killed, survived, stale, silent, alarms)
		for _, m := range mres {
			if m.Status != "killed" && m.Status != "silent" && m.Status != "silent-undecided" {
				fmt.Printf("  SELFTEST-WARN mutant %s expected %s: %s %s\n", m.ID, m.Expect, m.Status, m.Detail)
			}
		}
	}
	for _, f := range res.KnownHits {
		fmt.Printf("KNOWN-FINDING: property=%s %s %s at %s: %s\n", p.ID, f.Rule, f.Construct, f.Pos, f.Known)
	}
	code := 0
	for _, f := range res.Undecided {
		fmt.Printf("UNDECIDED property=%s rule=%s %s %s: %s\n", p.ID, f.Rule, f.Construct, f.Pos, f.Detail)
		code = 2
	}
	if *flagStrict && (survived > 0 || stale > 0 || alarms > 0) {
		code = 2
	}
	if len(res.Violations) > 0 {
		for _, f := range res.Violations {
			fmt.Printf("  violation rule=%s construct=%s at %s: %s\n", f.Rule, f.Construct, f.Pos, f.Detail)
		}
		fmt.Printf("VIOLATION property=%s replay=%s\n", p.ID, viol)
		code = 1
	}
	return code
}
