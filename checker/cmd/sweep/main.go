// sweep: exploratory listing of verification call sites and whether their failing edge can reach a success return.
package main

import (
	"fmt"
	"go/token"
	"regexp"
	"sort"
	"strings"

	"golang.org/x/tools/go/ssa"

	"charonverif/internal/an"
	"charonverif/internal/load"
)

func main() {
	p, err := load.Load(load.Options{Dir: "/repo"})
	if err != nil {
		panic(err)
	}
	re := regexp.MustCompile(`(?i)(^|\.)(verify[A-Za-z0-9]*)$`)
	var lines []string
	for _, pk := range p.Pkgs {
		sp := p.SSAPkgs[pk.PkgPath]
		if sp == nil || strings.Contains(pk.PkgPath, "/testutil") {
			continue
		}
		for _, fn := range an.PkgFuncs(sp) {
			for _, in := range an.Instrs(fn, false) {
				ci, ok := in.(ssa.CallInstruction)
				if !ok {
					continue
				}
				name := an.CalleeName(ci.Common())
				if !re.MatchString(name) {
					continue
				}
				status := "?"
				if call, ok := in.(*ssa.Call); ok {
					errs, _ := an.StatusOf(call, -1)
					res := call.Call.Signature().Results()
					if res.Len() == 0 {
						status = "no-result"
					} else if len(errs) == 0 {
						hasErr := false
						for i := 0; i < res.Len(); i++ {
							if an.IsErrorType(res.At(i).Type()) {
								hasErr = true
							}
						}
						if hasErr {
							status = "ERR-DISCARDED"
						} else {
							status = "non-error result"
						}
					} else {
						status = "err-used"
						// does a branch on err exist whose failing edge cannot reach a success return?
						good := false
						for _, e := range errs {
							for _, cd := range an.CondsOn(fn, e) {
								if cd.Other != nil && an.IsNilConst(cd.Other) {
									good = true
								}
							}
							// returned directly
							for _, r := range an.Returns(fn) {
								for _, v := range r.Results {
									if v == e {
										good = true
									}
								}
							}
						}
						if good {
							status = "err-checked-or-returned"
						}
						// strict: failing edge cannot reach a success return
						strict := false
						for _, e := range errs {
							for _, r := range an.Returns(fn) {
								for _, v := range r.Results {
									if v == e {
										strict = true
									}
								}
							}
							for _, cd := range an.CondsOn(fn, e) {
								if cd.Other == nil || !an.IsNilConst(cd.Other) {
									continue
								}
								fail := cd.Succ(cd.Op != token.EQL)
								reachSucc := false
								for b := range an.ReachBlocks(fail, map[*ssa.BasicBlock]bool{call.Block(): true}) {
									if r, ok := b.Instrs[len(b.Instrs)-1].(*ssa.Return); ok {
										for _, v := range r.Results {
											if an.IsErrorType(v.Type()) && an.IsNilConst(v) {
												reachSucc = true
											}
										}
										hasErr := false
										for _, v := range r.Results {
											if an.IsErrorType(v.Type()) {
												hasErr = true
											}
										}
										if !hasErr {
											reachSucc = true
										}
									}
								}
								if !reachSucc {
									strict = true
								}
							}
						}
						if strict {
							status = "STRICT-ok"
						}
					}
				} else {
					status = fmt.Sprintf("%T", in)
				}
				lines = append(lines, fmt.Sprintf("%-28s %-60s in %s @%s", status, name, an.FuncName(fn), p.Pos(in.Pos())))
			}
		}
	}
	sort.Strings(lines)
	for _, l := range lines {
		fmt.Println(l)
	}
}
